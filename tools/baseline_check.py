#!/venv/bin/python
"""Run the repository's pinned baseline (guard off) and confirm every stable_pass test still passes.
Usage: baseline_check.py [repo_dir]   (default /repo).  Exit 0 iff all stable_pass tests pass."""
import json, os, subprocess, sys, tempfile
import xml.etree.ElementTree as ET

repo = sys.argv[1] if len(sys.argv) > 1 else '/repo'
base = json.load(open('/root/.vp/BASELINE.json'))
want = set(base['stable_pass'])
fd, xml = tempfile.mkstemp(suffix='.xml'); os.close(fd)
env = dict(os.environ); env.pop('H2_VERIF', None); env['PYTHONDONTWRITEBYTECODE'] = '1'
if repo != '/repo':
    env['PYTHONPATH'] = os.path.join(repo, 'src')
subprocess.run(['/venv/bin/python', '-m', 'pytest', '-q', '-p', 'no:cacheprovider', '--timeout=900',
                '--continue-on-collection-errors', '-n', '8', '--junitxml=' + xml],
               cwd=repo, env=env, stdout=subprocess.DEVNULL, stderr=subprocess.DEVNULL)
passed = set()
for tc in ET.parse(xml).getroot().iter('testcase'):
    if not any(ch.tag in ('failure', 'error', 'skipped') for ch in tc):
        passed.add('%s::%s' % (tc.get('classname').rsplit('.', 1)[0] + '.' + tc.get('classname').rsplit('.', 1)[1]
                               if False else tc.get('classname'), tc.get('name')))
os.unlink(xml)
# stable ids look like test.test_x.TestY::test_z ; junit classname = test.test_x.TestY
missing = sorted(want - passed)
print('stable_pass=%d passed_now=%d missing=%d' % (len(want), len(passed & want), len(missing)))
for m in missing[:20]:
    print('  NOT PASSING:', m)
sys.exit(1 if missing else 0)
