#!/venv/bin/python
"""tools/rebase_seed.py <ID-N> <file relative to src/h2> : rewrite seeded/<ID-N>/patch.diff from an edited copy.
Usage: reads python code from stdin that transforms the source text `s` (variable) of the given file."""
import sys, os, subprocess, tempfile, shutil
sid, rel = sys.argv[1:3]
code = sys.stdin.read()
d = tempfile.mkdtemp(prefix='h2reb.', dir='/tmp')
try:
    shutil.copytree('/repo/src', d + '/a/src'); shutil.copytree('/repo/src', d + '/b/src')
    p = d + '/b/src/h2/' + rel
    s = open(p).read()
    ns = {'s': s}
    exec(code, ns)
    assert ns['s'] != s, 'no change'
    open(p, 'w').write(ns['s'])
    out = subprocess.run(['diff', '-u', 'a/src/h2/' + rel, 'b/src/h2/' + rel], cwd=d, stdout=subprocess.PIPE).stdout.decode()
    open('/verif/seeded/%s/patch.diff' % sid, 'w').write(out)
    r0 = subprocess.run(['/venv/bin/python', '/verif/seeded/%s/demo.py' % sid], env=dict(os.environ, PYTHONPATH=d + '/a/src'), stdout=subprocess.DEVNULL, stderr=subprocess.DEVNULL).returncode
    r1 = subprocess.run(['/venv/bin/python', '/verif/seeded/%s/demo.py' % sid], env=dict(os.environ, PYTHONPATH=d + '/b/src'), stdout=subprocess.DEVNULL, stderr=subprocess.DEVNULL).returncode
    print('demo clean rc=%d mutated rc=%d' % (r0, r1))
finally:
    shutil.rmtree(d)
