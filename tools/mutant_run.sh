#!/bin/sh
# tools/mutant_run.sh <patch.diff> <check ids...> : run quick checks against a scratch copy of /repo/src with the patch applied.
# The scratch copy lives outside /repo and /verif and is removed afterwards.
P="$(readlink -f "$1")"; shift
D=$(mktemp -d /tmp/h2mut.XXXXXX)
cp -r /repo/src "$D/src"
( cd "$D" && patch -s -p1 < "$P" ) || { echo "patch failed"; rm -rf "$D"; exit 3; }
for c in "$@"; do
  H2MON_SRC="$D/src" H2MON_OUT="$D/out" /verif/check "$c" --tier "${VERIF_TIER:-quick}" | grep -E "^(VIOLATION|HELD|INCONCLUSIVE|KNOWN)|key=" | cut -c1-300
done
rm -rf "$D"
