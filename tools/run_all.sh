#!/bin/sh
# tools/run_all.sh [tier] [seeds...] : run every registered check on /repo for each seed; one summary line per run.
cd /verif
TIER=${1:-quick}; shift
SEEDS="${@:-0}"
IDS=$(/venv/bin/python -c "import json;print(' '.join(c['property_id'] for c in json.load(open('MANIFEST.json'))['checks']))")
for s in $SEEDS; do
  for c in $IDS; do
    out=$(VERIF_SEED=$s ./check $c --tier $TIER 2>&1); rc=$?
    echo "seed=$s $c rc=$rc $(echo "$out" | grep -E '^(VIOLATION|INCONCLUSIVE)' | head -3 | tr '\n' ' ' | cut -c1-300) $(echo "$out" | grep -c '^KNOWN-FINDING') known $(echo "$out" | grep -o 'wall=[0-9.]*s')"
  done
done
