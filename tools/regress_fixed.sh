#!/bin/sh
# tools/regress_fixed.sh [commit ...] : for every "fixed:" entry of known_findings.json (or the given commits) revert that
# repair on a scratch copy of /repo/src (outside /repo and /verif, removed afterwards) and run the quick check of the
# property it is recorded under: the check must report a VIOLATION again ("a fixed entry suppresses nothing").
cd /verif
LIST=$(/venv/bin/python - "$@" <<'PY'
import json, re, sys
want = set(sys.argv[1:])
for line in json.load(open('/verif/known_findings.json'))['fixed']:
    m = re.match(r'fixed: property=(C\d+) ([0-9a-f]{7,}) ', line)
    if m and (not want or m.group(2) in want):
        also = re.findall(r'also (C\d+(?:, C\d+)*)', line)
        print(m.group(1), m.group(2), ','.join(also).replace(' ', ''))
PY
)
echo "$LIST" | while read prop commit also; do
  [ -z "$prop" ] && continue
  D=$(mktemp -d /tmp/h2reg.XXXXXX)
  cp -r /repo/src "$D/src"
  if git -C /repo diff "$commit" "$commit^" -- src | ( cd "$D" && patch -s -p1 >/dev/null 2>&1 ); then
    out=$(H2MON_SRC="$D/src" H2MON_OUT="$D/out" ./check "$prop" --tier quick 2>&1)
    if echo "$out" | grep -q "^VIOLATION"; then echo "$commit $prop: DETECTED $(echo "$out" | grep -A1 '^VIOLATION' | grep -m1 '^  key=' | cut -c1-140)";
    elif echo "$out" | grep -q "^INCONCLUSIVE"; then echo "$commit $prop: INCONCLUSIVE";
    else echo "$commit $prop: MISSED"; fi
  else
    echo "$commit $prop: REVERT-DOES-NOT-APPLY (later repairs touch the same lines)"
  fi
  rm -rf "$D"
done
