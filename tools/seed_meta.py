#!/venv/bin/python
"""tools/seed_meta.py <ID-N> <detected: yes|no|partial> <check ids,comma> <needs...>  -> writes seeded/<ID-N>/meta.json"""
import json, sys, os
sid, detected, checks = sys.argv[1:4]
needs = ' '.join(sys.argv[4:])
d = '/verif/seeded/%s' % sid
prop = sid.split('-')[0]
meta = {
    'property': prop,
    'breaks': 'see demo.py (exits 1 with patch.diff applied, 0 without)',
    'needs_to_manifest': needs,
    'confirmed_by': 'tools/seed_verify.sh %s %s: baseline 1403 stable tests still pass with the patch; demo exits 0 clean / 1 mutated' % tuple(sid.split('-')),
    'checked_with': 'tools/mutant_run.sh seeded/%s/patch.diff %s' % (sid, ' '.join(checks.split(','))),
    'detected': detected,
    'detected_by_checks': checks.split(','),
    'origin': 'independent sub-agent given only the property text and a scratch worktree',
}
json.dump(meta, open(os.path.join(d, 'meta.json'), 'w'), indent=1)
print('wrote', d)
