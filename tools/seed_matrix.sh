#!/bin/sh
# tools/seed_matrix.sh [ID ...] : run each seeded mutant against the check of its own property (quick tier).
cd /verif
LIST="$@"
[ -z "$LIST" ] && LIST=$(ls seeded)
for s in $LIST; do
  prop=${s%%-*}
  [ -f h2mon/checks/$(echo $prop | tr A-Z a-z).py ] || { echo "$s: NOCHECK"; continue; }
  out=$(tools/mutant_run.sh seeded/$s/patch.diff $prop 2>&1)
  if echo "$out" | grep -q "patch failed"; then echo "$s: PATCHFAIL";
  elif echo "$out" | grep -q "^VIOLATION"; then echo "$s: DETECTED $(echo "$out" | grep -m1 'key=' | cut -c1-150)";
  elif echo "$out" | grep -q "^INCONCLUSIVE"; then echo "$s: INCONCLUSIVE $(echo "$out" | grep -m1 INCONCLUSIVE | cut -c1-200)";
  else echo "$s: MISSED"; fi
done
