#!/venv/bin/python
"""Regenerates /verif/MANIFEST.json from the table below (keeps it schema-valid and current)."""
import json, os
HERE = os.path.dirname(os.path.dirname(os.path.abspath(__file__)))
ALL = ['C%02d' % i for i in range(1, 30)]

# property -> (level category, technique, level text, level note, design section)
CHECKS = {}

def add(pid, cat, technique, text, note):
    CHECKS[pid] = dict(cat=cat, technique=technique, text=text, note=note)

add('C17', 'exploration',
    'runtime monitoring: exception-type oracle on receive_data under structural + byte-mutation hostile-peer fuzzing, plus a coverage-guided layer driven by sys.monitoring LINE events over h2/hpack/hyperframe',
    'Held/violated on the generated executions only: hostile peer traffic (mutated frame fields, arbitrary HPACK, '
    'CONTINUATION chains, byte mutation) in random chunkings for both roles and all inbound configurations; evidence '
    'lists every (exception type, raising function) pair and event type observed. A coverage-guided layer (48 cases x 300 executions '
    'quick, 960 x 2500 thorough) evolves a corpus per case by byte mutation, insertion of freshly built odd frames and splicing, keeping '
    'inputs that reach library lines no earlier input of the case reached (sys.monitoring with DISABLE; re-armed per case so replays are '
    'deterministic); the evidence lists executions, inputs kept and lines reached.',
    'Trusts CPython, hpack, hyperframe; inputs limited to what the generators reach.')

add('C18', 'fault_enumeration',
    'runtime monitoring: GOAWAY trace oracle on every raising receive_data + constructed violation catalogue with RFC code table',
    'Catalogue of ~80 constructed violation kinds x 9 stream states x both roles is enumerated completely on every run '
    '(class known by construction, expected RFC code set per class); plus random hostile traffic delivered frame by frame '
    'where every raise must yield exactly one GOAWAY, last in the output, code == exception code, last-stream-id == highest '
    'peer-opened id. For window violations (DATA overrunning a stream or the connection window, padded or not; window and '
    'INITIAL_WINDOW_SIZE overflows, also of promised streams) and for frames on ids that are idle only for their own side, silence '
    'is a violation too. Held/violated on those executions only.',
    'Expected-code table written from RFC 7540 sections 4-6; last-stream-id oracle accepts the offending stream-opening frame id, '
    'and, once the endpoint has refused a promised stream with RST_STREAM(REFUSED_STREAM), either the refused id or the event watermark.')

add('C19', 'exploration',
    'runtime monitoring: post-closure trace oracle (only GOAWAY on the wire, every emitting call raises ProtocolError) over generated histories',
    'Histories reach closure by each of the three routes from varied stream states (incl. unacknowledged DATA, pending '
    'settings, undrained output) and are followed by 5-40 random public calls and received frames, each judged. '
    'Held/violated on those executions only.',
    'Arguments of post-closure calls are valid-for-an-open-connection so that only the closed state can refuse them.')

add('C26', 'exploration',
    'runtime monitoring: FIFO exactly-once matching of PING payloads against PING-ACK frames and events',
    'Unique 8-byte payloads make the history unambiguous; after every successful receive_data the ACK sequence on the wire '
    'must equal the delivered PING sequence (order, multiplicity, bytes), events must mirror frames, ACKs are never answered, '
    'ping() emits exactly one PING or raises. Bursts up to 200 PINGs per call, arbitrary chunking, both roles.',
    'Input side is parsed by the independent codec; GOAWAY ends a case (pending output is legitimately discarded).')

add('C03', 'exploration',
    'runtime monitoring: shadow send-window model from wire observations + exact-fit / fit+1 probes',
    'Shadow connection/stream send windows are computed only from what the scripted peer delivered and what E emitted '
    '(independent codec). Every emitted DATA frame, every local_flow_control_window answer after every step, and '
    'exact-fit / one-byte-more probes (with and without padding, incl. negative windows) are judged. Held/violated on '
    'the generated histories only.',
    'Shadow written from RFC 7540 section 6.9; payloads capped at 2^17 bytes (larger windows probe the frame-size limit instead).')

add('C04', 'exploration',
    'runtime monitoring: shadow advertised-window model from the endpoint wire + boundary-sized hostile DATA',
    'Advertised windows are reconstructed from WINDOW_UPDATE/SETTINGS frames actually emitted and the moment the SETTINGS '
    'ACK is delivered; the peer sizes DATA against them (exact fit, fit-1, overrun by one, padding 0..255). '
    'remote_flow_control_window and the public connection inbound window are compared after every step; raising '
    'increments must leave every window unchanged.',
    'Up to three INITIAL_WINDOW_SIZE changes in flight, each SETTINGS frame carrying only that setting; increases that would overflow an existing window are undetermined.')

add('C05', 'exploration',
    'runtime monitoring: quiescent-point invariant (all bytes acknowledged => windows positive) + conservation of credit',
    'Liveness restated as safety at forced quiescent points; credit conservation (sum of automatic WINDOW_UPDATE <= bytes '
    'acknowledged per scope) and window <= maximum checked after every step, over maxima 0..2^31-1 changed mid-history.',
    'No manual window increments in this workload (they redefine the maximum); one SETTINGS frame in flight at a time.')

add('C29', 'exploration',
    'runtime monitoring: exception-classification and output-conservation oracle under API fuzzing',
    'Every public call with well-typed boundary arguments in idle/open/closed connections and live/closed/forgotten/never-used '
    'streams: raised exceptions are classified (H2Error, or ValueError/TypeError only when a documented range is really '
    'violated), the stream-lookup rule (StreamClosedError vs NoSuchStreamError) is judged when the connection FSM was open, '
    'and a raising call must leave the output buffer empty.',
    'Reads conn.state_machine.state and the stream-id watermarks (getattr, read-only) only to decide when the lookup rule applies.')

add('C02', 'exploration',
    'runtime monitoring: strict independent wire parser over all emitted bytes + per-call emission specification',
    'All output is re-parsed with an independent codec (no hyperframe): preface, initial SETTINGS, no frame defects, payload '
    '<= peer MAX_FRAME_SIZE as delivered at emission time, header-block contiguity; every successful call is compared with an '
    'emission specification (frame types, ids, flags, padding, priority fields, codes, increments, settings pairs, opaque data) '
    'and header blocks are decoded by a monitor-owned HPACK decoder. Header blocks are sized to +-12 bytes of k*MAX_FRAME_SIZE.',
    'Header lists in this workload are already in normal form (normalisation is C14); E.encoder is deep-copied only to size inputs.')

add('C12', 'fault_enumeration',
    'runtime monitoring: reaction oracle from an RFC 6.5.2 / RFC 8441 table over an exhaustive settings grid',
    'Grid of 26 identifiers x 14 boundary values x 3 channels (received frame, update_settings, Settings initial values) x role x '
    'position is enumerated completely on every run and judged against a table written from the RFCs (accept / mandated code, '
    'exception code == GOAWAY code); plus the INITIAL_WINDOW_SIZE-delta overflow sub-grid over live, half-closed and closed streams.',
    'Identifiers >= 0x100 are only judged for local acceptance (their wire truncation is the C02 known finding).')

add('C16', 'exploration',
    'runtime monitoring: independent RFC 7540 8.1.2.6 content-length function vs observed accept/reject over an exhaustive message grid',
    'About 7900 request/response shapes (method x status x content-length x body size x DATA chunking x padding x END_STREAM '
    'placement x HEAD request trailers) are delivered by a scripted peer; malformed-by-oracle messages must be rejected no later '
    'than their END_STREAM frame, well-formed ones fully delivered.',
    'Negative / non-numeric / duplicated content-length and content-length on 1xx blocks are undetermined classes (not generated).')

add('C14', 'exploration',
    'runtime monitoring: independent normal-form + RFC 8.1.2 predicate over blocks decoded by a monitor-owned HPACK decoder',
    'Every emitted block is decoded independently and compared with the oracle form of the input (normal form or raw, per '
    'configuration) including never-indexed marks; emitted blocks must satisfy the rules the configuration promises; '
    'plainly valid inputs must be accepted. Grammar covers case, SP/HTAB, str/bytes, tuple classes, special names, duplicates, order.',
    'Whitespace limited to SP/HTAB; CONNECT, TE case variants and several different Host fields are undetermined; only '
    'authorization/proxy-authorization/short cookies are required never-indexed (caller-marked fields are a statistic).')

add('C15', 'exploration',
    'runtime monitoring: independent RFC 8.1.2 predicate over decoded lists built by a literal-only HPACK encoder',
    'The peer knows the decoded list exactly; an independent predicate decides deliver/refuse per block position and '
    'configuration; delivered headers are compared with the decoded block (cookie join, header_encoding), refusals must carry '
    'PROTOCOL_ERROR. Rule-targeted mutations hit every rule at first/middle/last position plus adversarial byte strings.',
    'CONNECT, requests with neither :authority nor Host, exotic edge whitespace, TE case variants and undecodable text under header_encoding are undetermined.')

add('C21', 'exploration',
    'runtime monitoring: differential execution of twins under different chunkings of the same byte string',
    'Deep-copied twins of one prepared connection receive the same bytes whole and chunked: ALL two-way splits and the '
    'single-byte split for strings <= 300 bytes, frame-boundary-biased (+-10 bytes of every frame start/end) and random k-way '
    'splits otherwise; emitted bytes, canonical events or (exception type, code, offending frame) must agree; read-amount '
    'sequences on data_to_send must partition the output.',
    'Output is read once after the last chunk in both runs (a received GOAWAY legitimately discards unread output); twins rely on copy.deepcopy of the connection.')

add('C28', 'exploration',
    'runtime monitoring: replay of recorded call programs in separate interpreters under different PYTHONHASHSEED values with transcript digests and tripwires',
    'Recorded programs (incl. repeated header fields with differing values, many-key settings frames, API error paths) are '
    'replayed twice in-process and in fresh interpreters under 5 (8 in thorough) hash seeds, every other replay with the programs in '
    'reverse order (no connection may depend on the connections served before it); some programs lower the documented '
    'MAX_CLOSED_STREAMS knob and cross the cap of the closed-stream memory; per-step digests of output bytes, '
    'canonical events, exception type+code and message text must be identical; clock/random/socket entry points raise while a call runs.',
    'Exception message text is compared after the elements of set literals in it have been sorted (their order follows the hash seed).')

add('C27', 'exploration',
    'runtime monitoring: structural invariants on live containers at quiescent points under long hostile frame sequences',
    'Twelve hostile patterns of 2N frames per case: after every frame that opens no stream the tracked-stream count must not '
    'grow; closed-stream memory <= its cap (cap actually reached: > 2^16 streams churned); blocks of HEADERS+n CONTINUATION '
    'frames judged at the limit read from the code at run time; decoded header lists at acknowledged MHLS -1/0/+1 (MHLS set alone '
    'and together with other settings) must be delivered / refused with ENHANCE_YOUR_CALM; census of every peer-fed container at N and 2N.',
    'Reads streams, _closed_streams, incoming_buffer, HPACK tables and settings deques through getattr (read-only); a removed attribute makes that probe unavailable, not a verdict.')

add('C11', 'exploration',
    'runtime monitoring: FIFO settings-frame model + in-force value measurement by behaviour probes on deep-copied clones',
    'The k-th ACK must report exactly frame k (initial frame included); every received SETTINGS frame must yield one ACK and one '
    'RemoteSettingsChanged with exact old/new values (unknown and duplicate ids included) and be applied at once; the values '
    'actually in force (inbound MAX_FRAME_SIZE, MAX_HEADER_LIST_SIZE, MAX_CONCURRENT_STREAMS, ENABLE_PUSH, INITIAL_WINDOW_SIZE, '
    'HEADER_TABLE_SIZE) are measured on clones right before and after each ACK; raising update_settings must leave no trace.',
    'A case stops at the first occurrence of the known per-key acknowledgement defect (the model has diverged); cases whose '
    'frames all touch one key, or with one frame in flight, are judged strictly throughout. Send-window effects of remote '
    'INITIAL_WINDOW_SIZE changes (incl. reserved streams) are judged by C03.')

add('C13', 'exploration',
    'runtime monitoring: monitor-owned HPACK decoder fed every emitted block + encoder-state snapshots around raising calls',
    'Every emitted header block is decoded in order by an independent decoder whose limits follow the SETTINGS the scripted peer '
    'announced, and must equal the normal form of the successful call (unique tag per call). About a third of the header calls '
    'raise (validation after a prefix of fresh indexable fields, state, trailer, priority and push errors); each must emit '
    'nothing and leave the encoder snapshot unchanged, and later blocks re-using the same fields must still decode.',
    'Whether an invalid call should have been refused is C08/C14 business; an accepted call is judged as a successful call.')

add('C07', 'exploration',
    'runtime monitoring: online per-stream event automaton (trace specification) over receive_data return values',
    'A role-specific event automaton per stream, the role alphabet, at-most-one StreamReset, and identity of related-event '
    'links are checked on every returned event list while a hostile peer produces legal traffic mixed with illegal '
    'productions (DATA before HEADERS, unpromised even streams, second final response, frames after END_STREAM / RST_STREAM, '
    'WINDOW_UPDATE in between) and the application makes local calls (1xx, responses, pushes, resets) in between.',
    'Events of a receive_data call that raised are not part of the trace (the caller never sees them).')

add('C20', 'exploration',
    'runtime monitoring: trace oracle over delivery schedules in which a local reset crosses in-flight peer frames',
    'After the local reset (stream open / half-closed either way / reserved, before and after cleanup with up to 200 other '
    'streams in between) 1-1500 racing frames are delivered: no exception, no event naming the reset stream or streams '
    'promised on it, the peer (which only sends within the window it was granted) must never end up blocked at window 0 - '
    'checked beyond 64 kB and with padding floods - and later messages referencing header fields introduced by racing blocks '
    '(peer uses a real indexing HPACK encoder) must be delivered exactly.',
    'Racing frames are those that were legal had the reset not happened; more than 2^16 closed streams in between is outside the documented bound.')

add('C23', 'exploration',
    'runtime monitoring: round-trip oracle through a real client/server pair + state-neutrality snapshots and differential twin',
    'All 256 weights (exhaustive every run) plus defaults, dependencies and exclusive flags go through prioritize() and '
    'send_headers(priority_*) to a real server whose PriorityUpdated (and RequestReceived.priority_updated link) must match; wire '
    'fields checked independently; refusals for servers / bad weights / self-dependency; every received PRIORITY frame must '
    'yield exactly one PriorityUpdated and leave an observable-state snapshot unchanged, and a twin that never received the '
    'frames must behave identically in a continuation with request, response, push and data.',
    'depends_on >= 2^31 is not representable and belongs to C29.')

add('C24', 'exploration',
    'runtime monitoring: reaction oracle from an RFC 7838 table over an exhaustive send/receive grid + differential twin for servers',
    'Sending grid (role x origin/stream/both/neither x 10 stream states) and receiving grid (role x 13 stream-progress states x '
    'origin present/absent) are enumerated on every run; events must carry the given origin or the request :authority and '
    'only before response headers; ignored frames must leave no event, no output and - on servers - no behavioural difference '
    'against a twin in a continuation that includes a push.',
    'Stream advertisements after only an informational response, on reserved streams, and ALTSVC received after only a 1xx are undetermined.')

add('C10', 'exploration',
    'runtime monitoring: shadow RFC 7540 5.1/5.1.2 stream-count model driven from the wire; accept/refuse oracle at the limit and counter comparison after every step',
    'Random histories for both roles of stream openings, END_STREAM in both directions, resets by either side, pushes and their '
    'activation, and MAX_CONCURRENT_STREAMS changes on both sides (0,1,2,3,5,100; up to three local changes in flight, each ACK '
    'delivered at an arbitrary later step). Every opening by the endpoint must succeed below the peer limit as last delivered and '
    'raise TooManyStreamsError without output at it; every opening by the peer must be accepted below the acknowledged local limit '
    'and refused (connection error or RST_STREAM) at it; open_outbound_streams / open_inbound_streams must equal the model counts '
    '(polled after every step in half of the histories, only at the end in the others, because reading them triggers cleanup). '
    'Held/violated on those executions only.',
    'Only valid traffic besides the over-limit opening itself; each SETTINGS frame of the endpoint carries only MAX_CONCURRENT_STREAMS, '
    'so ACK-to-frame matching (C11) is unambiguous; the two push-activation mechanisms were known findings until the repair 06ab64d.')

add('C25', 'exploration',
    'runtime monitoring: setting-by-setting view comparison + behavioural probes on both real endpoints after an h2c upgrade, over an exhaustive settings grid',
    'Grid of 1728 client settings combinations (HEADER_TABLE_SIZE, ENABLE_PUSH, MAX_CONCURRENT_STREAMS, INITIAL_WINDOW_SIZE, '
    'MAX_FRAME_SIZE, MAX_HEADER_LIST_SIZE, ENABLE_CONNECT_PROTOCOL) is enumerated on every run: the HTTP2-Settings value returned by the '
    'real client is handed unmodified to a real server, whose remote_settings and derived state (frame size, stream-1 send window, '
    'push gate, encoder table size, judged by an independent HPACK decoder) are compared before any in-band frame is read; stream 1 '
    'is then exercised on both sides through real calls (no request body possible, response and push delivered, closed afterwards), '
    'first new ids 3 and 2, and a continuation exchange (request with body, response with trailers, pushed response, ping). '
    'Held/violated on those executions only.',
    'Continuation programs are a fixed family with random ordering choices, not arbitrary programs; settings values come from the grid only.')

add('C09', 'exploration',
    'runtime monitoring: shadow identifier-space model (watermarks per initiator, fate of every used id) driven from the boundary; accept/classify oracle for openings, next-id comparison after every step, PRIORITY neutrality probes',
    'Random histories for both roles on plain and h2c-upgraded connections: openings by the endpoint with user-chosen ids (next, skipping '
    'ahead, 2^31-3..2^31-1, wrong parity, too low, above 2^31-1, valid id with a refused header list), peer openings by HEADERS and '
    'PUSH_PROMISE with fresh, wrong-parity, skipped, reset and normally-ended ids, before and after the closed stream is forgotten and with '
    'the local MAX_CONCURRENT_STREAMS saturated; PRIORITY frames (received and sent) on idle, live, closed, skipped and far-future ids '
    'followed by openings at or below them. Every opening on the wire must be strictly increasing, of the right parity, <= 2^31-1 and carry '
    'the id of the call; get_next_available_stream_id is compared with the model after every step; the reaction to each bad peer id must be '
    'the class the statement names. Held/violated on those executions only.',
    'Peer frames other than the judged opening are valid; HEADERS on live streams are not openings and belong to C06; ids <= 0 passed by the user are C29.')

add('C08', 'exploration',
    'runtime monitoring: send-side wire-grammar automaton over every emitted frame (independent codec + monitor-owned HPACK decoder) and refusal oracle for model-forbidden calls under order-scrambled API programs',
    'Order-scrambled programs of send_headers (request / informational / final / trailer header lists, with and without END_STREAM, every '
    'non-empty subset of priority arguments incl. 0 and False), send_data, end_stream, push_stream, prioritize, '
    'advertise_alternative_service and reset_stream on new, inbound, pushed (both directions) and upgraded streams, both roles, while '
    'the peer opens, promises, continues (1xx, final, DATA, trailers, END_STREAM) and resets streams. Every emitted frame is run through a '
    'per-stream grammar (client opens only with request blocks on odd ids; no PUSH_PROMISE/ALTSVC from clients; no HEADERS from a server '
    'on a stream neither opened by the peer nor promised by it; no PRIORITY from servers; informational* final DATA* trailers+END_STREAM; '
    'nothing after END_STREAM or reset) and every call the model forbids must raise ProtocolError (RFC1122Error for server priority) '
    'and emit nothing. Held/violated on those executions only.',
    'Whether a permitted call succeeds is not judged here (C06); a stream on which a refusal happened is only judged by the wire grammar afterwards; '
    'DATA before the response headers from a server is a known finding (three keys, one mechanism).')

add('C22', 'exploration',
    'runtime monitoring: push accept/refuse oracle from a boundary-driven model (peer ENABLE_PUSH as delivered / local ENABLE_PUSH as acknowledged, parent state, header conformance model, id watermark) on scripted-peer histories for both roles, plus a real-client/real-server duet with settings changes in flight',
    'Server against scripted client: every push_stream over parents in every state (idle, open, response sent, half-closed either way, '
    'reset by either side, pushed), ENABLE_PUSH 0/1 at handshake and toggled mid-history, valid / invalid / normalised-away header lists, '
    'fresh / odd / reused / oversized promised ids; success must emit exactly PUSH_PROMISE(parent, promised) decoding to the normal form, '
    'refusal must raise ProtocolError, emit nothing and leave the next id unchanged; client frames on promised streams and PUSH_PROMISE '
    'from a client must never yield request/data/push events. Client against scripted server: every PUSH_PROMISE judged against the '
    'acknowledged ENABLE_PUSH (0-2 changes in flight), parent state, promised id and header validity, incl. blocks split over CONTINUATION '
    'and padding; PushedStreamReceived must carry the right ids and headers; promises on locally reset parents must be refused by RST_STREAM '
    'without events; promised streams must accept a response and refuse request-shaped blocks and nested promises. Duet: the server pushes '
    'while the client toggles ENABLE_PUSH and resets parents, bytes delivered at arbitrary points; every accepted push must arrive as the '
    'matching event (or be refused after a client reset), never raise at the client, and the server must accept exactly according to the '
    'SETTINGS bytes that have reached it. Held/violated on those executions only.',
    'A parent on which a push was refused is not used again (the library closes a stream on a refused action; that is C01/C06 material); '
    'header lists whose validity the statement leaves open (CONNECT, neither :authority nor Host) are counted as undetermined.')

add('C06', 'exploration',
    'runtime monitoring: bounded exhaustive enumeration of action sequences executed on the real connection (each node on a deep copy of its parent), every reaction compared with the allowed set of an independent RFC 7540 5.1 reference machine',
    'For each role and each start (plain, h2c-upgraded stream 1) every sequence up to length 4 (quick) / 5 (thorough) over a 31/32-symbol '
    'alphabet is executed: local send_headers in each message role with/without END_STREAM, send_data, end_stream, reset_stream, push_stream, '
    'increment_flow_control_window, cleanup of closed streams; received HEADERS in each message role with/without END_STREAM, DATA, RST_STREAM, '
    'WINDOW_UPDATE, PUSH_PROMISE, naked CONTINUATION, on the focus stream and (reduced set) on the promised stream. The reference machine is '
    'written from the RFC text (no use of the library transition table) and returns the allowed reactions: local ok/refused; received accept '
    'with an exact event list, stream error with a code set, connection error with a code set (exactly one GOAWAY with the exception code), or '
    'ignore. A connection error or refused local action ends a branch. Plus random walks up to length 14, most of them with padded DATA, '
    'WINDOW_UPDATE up to exactly 2^31-1, INITIAL_WINDOW_SIZE toggled between 65535 and 0 (the model follows every send window), full-size '
    'DATA on dead streams and header blocks split over CONTINUATION frames. Held/violated on those sequences only; '
    'exhaustive only with respect to this alphabet and depth.',
    'Widened cells, each with its source in the module: DATA on closed streams answered by RST_STREAM (CHANGELOG 3.2.0); WINDOW_UPDATE/RST_STREAM on closed '
    'streams ignored (CHANGELOG 3.1.1); 1xx with END_STREAM or after END_STREAM may be PROTOCOL_ERROR; server DATA before response headers is '
    'left to C08; a refused local action closing the stream is a known finding (one key).')

add('C01', 'exploration',
    'runtime monitoring: call-level message oracle over duet histories - every successful sending call becomes a logical message with its end offset in the byte pipe, and the receiver events of each receive_data call must equal the predictions for the messages that arrived in it',
    'A real client and a real server joined by byte pipes run random programs of 20-160 steps: requests (with priority), informational and '
    'final responses, DATA with and without padding up to the window / frame limits, trailers, END_STREAM, resets, pushes and pushed responses, '
    'pings, PRIORITY, SETTINGS changes of five settings racing traffic (up to three frames in flight per endpoint), messages that announce '
    'their body length, manual increments and '
    'acknowledge_received_data, about 7 percent deliberately failing calls, GOAWAY; between steps random-length prefixes (1 byte, mid-frame, '
    'everything) of either pipe are delivered. At arrival the receiver view of the stream (an RFC 5.1 model fed by that endpoint calls and '
    'arrivals) decides the expected events - header lists in the documented normal form, exact body bytes and flow-controlled length, '
    'StreamEnded, reset codes, pushes, pings, priority, settings, window updates, GOAWAY, or silence for frames racing a local reset; frames '
    'an endpoint emits on its own are predicted from the frames. The event list of every receive_data must equal the prediction exactly, '
    'receive_data must never raise on an endpoint that has not closed the connection, raising calls must emit nothing, and everything sent '
    'must arrive. Held/violated on those executions only.',
    'The initial SETTINGS exchange is completed before the program starts (an update sent before the initial ACK is the remaining C11 known finding); header lists stay far below MAX_HEADER_LIST_SIZE; '
    'ENABLE_PUSH is not toggled here (C22); reads conn.state_machine.state and stream state read-only after a refused call to attribute the two known findings.')

NOT_BUILT_REASON = 'check not built yet in this session (planned in DESIGN.md; no verdict claimed)'

def main():
    checks = []
    for pid in ALL:
        if pid not in CHECKS:
            continue
        c = CHECKS[pid]
        checks.append({
            'property_id': pid,
            'quick_cmd': './check %s --tier quick' % pid,
            'thorough_cmd': './check %s --tier thorough' % pid,
            'evidence_file': 'evidence/%s.json' % pid,
            'replay_cmd_template': './check --replay {path}',
            'engine': 'h2mon',
            'level_claimed': {'category': c['cat'], 'text': c['text'], 'design_ref': 'DESIGN.md section 4, ' + pid},
            'level_note': c['note'],
            'technique': c['technique'],
        })
    man = {
        'version': 1,
        'setup_cmd': 'true',
        'hooks': {
            'guard': 'H2_VERIF',
            'enable': 'no source hooks: checks import /repo/src directly (PYTHONPATH) and observe at the public API boundary',
            'baseline_off_cmd': 'cd /repo && /venv/bin/python -m pytest -ra -q -p no:cacheprovider --timeout=900 --continue-on-collection-errors',
            'source_commits': [],
            'add_only': True,
        },
        'engines': [{'name': 'h2mon', 'path': 'h2mon/', 'serves_properties': sorted(CHECKS),
                     'kind_free_text': 'runtime monitors (trace-spec checkers, reference-model oracles, differential '
                                       'executions) over real executions of h2 driven by seeded hostile/duet/api workloads'}],
        'checks': checks,
        'not_applicable': [{'property_id': p, 'reason': NOT_BUILT_REASON} for p in ALL if p not in CHECKS],
        'notes': 'All checks: ./check Cxx --tier quick|thorough (VERIF_SEED, VERIF_TIER honoured). Exit 0 held, 1 violation, 2 inconclusive.',
    }
    with open(os.path.join(HERE, 'MANIFEST.json'), 'w') as f:
        json.dump(man, f, indent=1)
    print('MANIFEST.json: %d checks, %d not_applicable' % (len(checks), len(man['not_applicable'])))

if __name__ == '__main__':
    main()
