#!/bin/sh
# tools/seed_verify.sh <ID> <n> : confirm a sub-agent's mutation n for property ID in its scratch worktree /tmp/seed_<ID>:
#  baseline tests still pass with the patch, demo fails with it and passes without it.  On success the files are
#  copied to /verif/seeded/<ID>-<n>/ .
ID="$1"; N="$2"; WT=/tmp/seed_$ID; OUT=${SEED_OUT:-/tmp/seed_out/$ID}
git -C "$WT" checkout -q -- . || exit 3
PYTHONPATH=$WT/src /venv/bin/python "$OUT/demo$N.py" >/dev/null 2>&1; D0=$?
git -C "$WT" apply "$OUT/patch$N.diff" || { echo "patch does not apply"; exit 3; }
PYTHONPATH=$WT/src /venv/bin/python "$OUT/demo$N.py" >/tmp/seed_out/$ID/demo$N.out 2>&1; D1=$?
/verif/tools/baseline_check.py "$WT" > /tmp/seed_out/$ID/base$N.out 2>&1; B=$?
git -C "$WT" checkout -q -- .
echo "demo_clean_exit=$D0 demo_mutated_exit=$D1 baseline_rc=$B ($(head -1 /tmp/seed_out/$ID/base$N.out))"
if [ "$D0" = 0 ] && [ "$D1" != 0 ] && [ "$B" = 0 ]; then
  mkdir -p /verif/seeded/$ID-$N
  cp "$OUT/patch$N.diff" /verif/seeded/$ID-$N/patch.diff
  cp "$OUT/demo$N.py" /verif/seeded/$ID-$N/demo.py
  echo CONFIRMED
else
  echo REJECTED
fi
