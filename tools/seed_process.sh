#!/bin/sh
# tools/seed_process.sh <ID> <outdir> <n...> : verify seeds n of property ID found in <outdir> (worktree /tmp/seed_<ID>),
# copy them to seeded/, run the property's quick check against each, print one line per seed.
ID="$1"; OUT="$2"; shift 2
cd /verif
for N in "$@"; do
  v=$(SEED_OUT="$OUT" tools/seed_verify.sh "$ID" "$N" | tail -1)
  if [ "$v" != CONFIRMED ]; then echo "$ID-$N: NOT CONFIRMED"; continue; fi
  cp "$OUT/notes.md" seeded/$ID-$N/notes.md 2>/dev/null
  out=$(tools/mutant_run.sh seeded/$ID-$N/patch.diff $ID 2>&1 | grep -v "^KNOWN")
  if echo "$out" | grep -q "^VIOLATION"; then echo "$ID-$N: DETECTED $(echo "$out" | grep -m1 '^  key=' | cut -c1-150)";
  elif echo "$out" | grep -q "patch failed"; then echo "$ID-$N: PATCHFAIL";
  else echo "$ID-$N: MISSED ($(echo "$out" | tail -1 | cut -c1-80))"; fi
done
