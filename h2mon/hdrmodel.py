"""Independent RFC 7540 section 8.1.2 header-block model (no import of h2).

conformant(kind, headers) -> True / False / None
  kind in request, push, response (final or informational), trailers.
  None = undetermined: the property statement / RFC leave the outcome open, the
  monitors count such inputs but give no verdict on them.

normal_form(headers) -> (list of (name, value, never_indexed)) for the outbound
direction as documented: names lowercased and stripped, values stripped,
connection-specific fields dropped, credentials and short cookies never-indexed.
"""

CONNECTION_SPECIFIC = {b'connection', b'proxy-connection', b'keep-alive', b'transfer-encoding', b'upgrade'}
KNOWN_PSEUDO = {b':method', b':scheme', b':authority', b':path', b':status', b':protocol'}
REQUEST_PSEUDO = {b':method', b':scheme', b':authority', b':path', b':protocol'}
OWS = b' \t'
OTHER_WS = b'\n\r\x0b\x0c'
SECURE = {b'authorization', b'proxy-authorization'}


def _b(x):
    return x.encode('utf-8') if isinstance(x, str) else bytes(x)


def _edge_ws(s):
    """0 = no edge whitespace, 1 = SP/HTAB at an edge, 2 = exotic whitespace at an edge (undetermined)."""
    if not s:
        return 0
    r = 0
    for ch in (s[:1], s[-1:]):
        if ch in (b' ', b'\t'):
            r = max(r, 1)
        elif ch in (b'\n', b'\r', b'\x0b', b'\x0c'):
            r = max(r, 2)
    return r


def conformant(kind, headers, check_case_and_ws=True):
    """Inbound predicate over the *decoded* list.  Returns (verdict, reason)."""
    hs = [(_b(n), _b(v)) for n, v in headers]
    undetermined = None
    seen_regular = False
    pseudo = {}
    hosts = []
    method = None
    for n, v in hs:
        if n == b'':
            return False, 'empty-name'
        if check_case_and_ws:
            if any(65 <= c <= 90 for c in n):
                return False, 'uppercase-name'
            en, ev = _edge_ws(n), _edge_ws(v)
            if en == 1 or ev == 1:
                return False, 'surrounding-whitespace'
            if en == 2 or ev == 2:
                undetermined = 'exotic-edge-whitespace'
        if n in CONNECTION_SPECIFIC:
            return False, 'connection-specific'
        if n == b'te':
            if v == b'trailers':
                pass
            elif v.lower() == b'trailers':
                undetermined = undetermined or 'te-case-variant'
            else:
                return False, 'te-not-trailers'
        if n.startswith(b':'):
            if n in pseudo:
                return False, 'duplicate-pseudo'
            if seen_regular:
                return False, 'pseudo-after-regular'
            if n not in KNOWN_PSEUDO:
                return False, 'unknown-pseudo'
            pseudo[n] = v
            if n == b':method':
                method = v
        else:
            seen_regular = True
            if n == b'host':
                hosts.append(v)
    if kind == 'trailers':
        if pseudo:
            return False, 'pseudo-in-trailers'
    elif kind == 'response':
        if b':status' not in pseudo:
            return False, 'missing-status'
        if set(pseudo) & REQUEST_PSEUDO:
            return False, 'request-pseudo-in-response'
    else:
        extended_connect = False
        if method == b'CONNECT':
            # RFC 8441 section 4: an extended CONNECT request carries :protocol together with :scheme, :path and :authority,
            # in any order among the pseudo-header fields; it is then judged like any other request.  A plain CONNECT
            # (RFC 7540 8.3, :scheme and :path omitted) is left undetermined.
            if b':protocol' in pseudo and all(x in pseudo for x in (b':scheme', b':path', b':authority')):
                extended_connect = True
            else:
                return None, 'connect-request'
        for req in (b':path', b':method', b':scheme'):
            if req not in pseudo:
                return False, 'missing-' + req.decode()[1:]
        if b':status' in pseudo:
            return False, 'status-in-request'
        if b':protocol' in pseudo and not extended_connect:
            return False, 'protocol-without-connect'
        if pseudo[b':path'] == b'':
            return False, 'empty-path'
        if b':authority' not in pseudo and not hosts:
            return None, 'neither-authority-nor-host'
        if len(set(hosts)) > 1:
            return None, 'several-different-host-fields'
        if b':authority' in pseudo and hosts and pseudo[b':authority'] != hosts[-1]:
            return False, 'authority-host-mismatch'
    if undetermined:
        return None, undetermined
    return True, 'ok'


def inbound_delivery(headers, normalize):
    """What the application should be handed for an accepted block (as bytes pairs)."""
    hs = [(_b(n), _b(v)) for n, v in headers]
    if not normalize:
        return hs
    cookies = [v for n, v in hs if n == b'cookie']
    out = [(n, v) for n, v in hs if n != b'cookie']
    if cookies:
        out.append((b'cookie', b'; '.join(cookies)))
    return out


def strip_ows(b):
    return b.strip()


def normal_form(headers):
    """Outbound normal form: [(name, value, never_indexed)]"""
    out = []
    for h in headers:
        n, v = _b(h[0]), _b(h[1])
        never = bool(getattr(h, 'indexable', True) is False)
        n = n.lower().strip()
        v = v.strip()
        if n in CONNECTION_SPECIFIC:
            continue
        if n in SECURE or (n == b'cookie' and len(v) < 20):
            never = True
        out.append((n, v, never))
    return out


def raw_form(headers):
    return [(_b(h[0]), _b(h[1]), bool(getattr(h, 'indexable', True) is False)) for h in headers]
