"""Independent HTTP/2 frame codec (RFC 7540 sections 4 and 6, RFC 7838 section 4).

Deliberately does NOT use hyperframe: the repository's tests build their
expected bytes with the same hyperframe helpers the library uses, so a
serialisation defect common to both is invisible to them.

parse_frames() is strict and *reports* every well-formedness defect instead of
raising.  The build_* helpers can also build malformed frames (explicit length
field, arbitrary flags, wrong stream ids) for the hostile peer.
"""
import struct

DATA, HEADERS, PRIORITY, RST_STREAM, SETTINGS, PUSH_PROMISE, PING, GOAWAY, \
    WINDOW_UPDATE, CONTINUATION, ALTSVC = range(11)

TYPE_NAMES = {
    0: 'DATA', 1: 'HEADERS', 2: 'PRIORITY', 3: 'RST_STREAM', 4: 'SETTINGS',
    5: 'PUSH_PROMISE', 6: 'PING', 7: 'GOAWAY', 8: 'WINDOW_UPDATE',
    9: 'CONTINUATION', 10: 'ALTSVC',
}

F_END_STREAM = 0x1
F_ACK = 0x1
F_END_HEADERS = 0x4
F_PADDED = 0x8
F_PRIORITY = 0x20

# flags defined per frame type (RFC 7540 section 6)
DEFINED_FLAGS = {
    DATA: F_END_STREAM | F_PADDED,
    HEADERS: F_END_STREAM | F_END_HEADERS | F_PADDED | F_PRIORITY,
    PRIORITY: 0,
    RST_STREAM: 0,
    SETTINGS: F_ACK,
    PUSH_PROMISE: F_END_HEADERS | F_PADDED,
    PING: F_ACK,
    GOAWAY: 0,
    WINDOW_UPDATE: 0,
    CONTINUATION: F_END_HEADERS,
    ALTSVC: 0,
}

PREFACE = b'PRI * HTTP/2.0\r\n\r\nSM\r\n\r\n'

# settings ids
S_HEADER_TABLE_SIZE = 1
S_ENABLE_PUSH = 2
S_MAX_CONCURRENT_STREAMS = 3
S_INITIAL_WINDOW_SIZE = 4
S_MAX_FRAME_SIZE = 5
S_MAX_HEADER_LIST_SIZE = 6
S_ENABLE_CONNECT_PROTOCOL = 8

# error codes
NO_ERROR, PROTOCOL_ERROR, INTERNAL_ERROR, FLOW_CONTROL_ERROR, SETTINGS_TIMEOUT, \
    STREAM_CLOSED, FRAME_SIZE_ERROR, REFUSED_STREAM, CANCEL, COMPRESSION_ERROR, \
    CONNECT_ERROR, ENHANCE_YOUR_CALM, INADEQUATE_SECURITY, HTTP_1_1_REQUIRED = range(14)


class Frame(object):
    """One parsed frame.  Only the attributes relevant to its type are set."""

    def __init__(self, ftype, flags, stream_id, payload, r_bit=0, offset=0):
        self.type = ftype
        self.flags = flags
        self.stream_id = stream_id
        self.payload = payload
        self.r_bit = r_bit
        self.offset = offset          # offset of the frame header in the input
        self.length = len(payload)
        self.defects = []
        # type specific
        self.data = None              # DATA payload without padding / header block fragment
        self.pad_length = None        # None when PADDED flag unset
        self.depends_on = None
        self.exclusive = None
        self.weight = None            # wire value 0..255
        self.error_code = None
        self.settings = None          # ordered list of (id, value)
        self.promised_id = None
        self.opaque = None
        self.last_stream_id = None
        self.debug = None
        self.increment = None
        self.origin = None
        self.field = None

    @property
    def name(self):
        return TYPE_NAMES.get(self.type, 'UNKNOWN(%d)' % self.type)

    @property
    def end_stream(self):
        return self.type in (DATA, HEADERS) and bool(self.flags & F_END_STREAM)

    @property
    def end_headers(self):
        return self.type in (HEADERS, PUSH_PROMISE, CONTINUATION) and bool(self.flags & F_END_HEADERS)

    @property
    def ack(self):
        return self.type in (SETTINGS, PING) and bool(self.flags & F_ACK)

    @property
    def flow_len(self):
        """Flow-controlled length: the whole DATA payload incl. pad length byte and padding."""
        return self.length if self.type == DATA else 0

    @property
    def end(self):
        return self.offset + 9 + self.length

    def brief(self):
        d = {'t': self.name, 'sid': self.stream_id, 'fl': self.flags, 'len': self.length}
        if self.type == DATA:
            d['pad'] = self.pad_length
        elif self.type == HEADERS and self.weight is not None:
            d['prio'] = [self.depends_on, self.exclusive, self.weight]
        elif self.type == PRIORITY:
            d['prio'] = [self.depends_on, self.exclusive, self.weight]
        elif self.type == RST_STREAM:
            d['code'] = self.error_code
        elif self.type == SETTINGS:
            d['settings'] = self.settings
        elif self.type == PUSH_PROMISE:
            d['promised'] = self.promised_id
        elif self.type == PING:
            d['opaque'] = self.opaque.hex() if self.opaque is not None else None
        elif self.type == GOAWAY:
            d['last'] = self.last_stream_id
            d['code'] = self.error_code
        elif self.type == WINDOW_UPDATE:
            d['inc'] = self.increment
        if self.defects:
            d['defects'] = self.defects
        return d

    def __repr__(self):
        return 'Frame(%r)' % (self.brief(),)


def _strip_padding(f, body):
    """Handle the PADDED flag; returns the body without pad-length byte and padding."""
    if f.flags & F_PADDED:
        if len(body) < 1:
            f.defects.append('padded-without-pad-length')
            f.pad_length = 0
            return body
        pad = body[0]
        f.pad_length = pad
        body = body[1:]
        if pad > len(body):
            f.defects.append('padding-exceeds-payload')
            return b''
        return body[:len(body) - pad] if pad else body
    return body


def _parse_body(f):
    p = f.payload
    t = f.type
    defined = DEFINED_FLAGS.get(t)
    if defined is not None and (f.flags & ~defined):
        f.defects.append('undefined-flag-bits')
    if f.r_bit:
        f.defects.append('reserved-bit-set')
    if t == DATA:
        if f.stream_id == 0:
            f.defects.append('stream-0')
        f.data = _strip_padding(f, p)
    elif t == HEADERS:
        if f.stream_id == 0:
            f.defects.append('stream-0')
        body = _strip_padding(f, p)
        if f.flags & F_PRIORITY:
            if len(body) < 5:
                f.defects.append('priority-fields-truncated')
            else:
                dep, w = struct.unpack('>IB', body[:5])
                f.exclusive = bool(dep >> 31)
                f.depends_on = dep & 0x7fffffff
                f.weight = w
                body = body[5:]
        f.data = body
    elif t == PRIORITY:
        if f.stream_id == 0:
            f.defects.append('stream-0')
        if len(p) != 5:
            f.defects.append('bad-length')
        else:
            dep, w = struct.unpack('>IB', p)
            f.exclusive = bool(dep >> 31)
            f.depends_on = dep & 0x7fffffff
            f.weight = w
    elif t == RST_STREAM:
        if f.stream_id == 0:
            f.defects.append('stream-0')
        if len(p) != 4:
            f.defects.append('bad-length')
        else:
            f.error_code = struct.unpack('>I', p)[0]
    elif t == SETTINGS:
        if f.stream_id != 0:
            f.defects.append('non-zero-stream')
        if len(p) % 6:
            f.defects.append('bad-length')
        if (f.flags & F_ACK) and p:
            f.defects.append('ack-with-payload')
        f.settings = [struct.unpack('>HI', p[i:i + 6]) for i in range(0, len(p) - len(p) % 6, 6)]
    elif t == PUSH_PROMISE:
        if f.stream_id == 0:
            f.defects.append('stream-0')
        body = _strip_padding(f, p)
        if len(body) < 4:
            f.defects.append('promised-id-truncated')
            f.data = b''
        else:
            pid = struct.unpack('>I', body[:4])[0]
            if pid >> 31:
                f.defects.append('promised-reserved-bit-set')
            f.promised_id = pid & 0x7fffffff
            f.data = body[4:]
    elif t == PING:
        if f.stream_id != 0:
            f.defects.append('non-zero-stream')
        if len(p) != 8:
            f.defects.append('bad-length')
        f.opaque = p
    elif t == GOAWAY:
        if f.stream_id != 0:
            f.defects.append('non-zero-stream')
        if len(p) < 8:
            f.defects.append('bad-length')
        else:
            last, code = struct.unpack('>II', p[:8])
            if last >> 31:
                f.defects.append('last-stream-reserved-bit-set')
            f.last_stream_id = last & 0x7fffffff
            f.error_code = code
            f.debug = p[8:]
    elif t == WINDOW_UPDATE:
        if len(p) != 4:
            f.defects.append('bad-length')
        else:
            inc = struct.unpack('>I', p)[0]
            if inc >> 31:
                f.defects.append('increment-reserved-bit-set')
            f.increment = inc & 0x7fffffff
            if f.increment == 0:
                f.defects.append('zero-increment')
    elif t == CONTINUATION:
        if f.stream_id == 0:
            f.defects.append('stream-0')
        f.data = p
    elif t == ALTSVC:
        if len(p) < 2:
            f.defects.append('bad-length')
        else:
            olen = struct.unpack('>H', p[:2])[0]
            if 2 + olen > len(p):
                f.defects.append('origin-length-exceeds-payload')
            else:
                f.origin = p[2:2 + olen]
                f.field = p[2 + olen:]
                if f.stream_id == 0 and not f.origin:
                    f.defects.append('altsvc-stream0-without-origin')
                if f.stream_id != 0 and f.origin:
                    f.defects.append('altsvc-stream-with-origin')
    return f


def parse_frames(buf, offset=0):
    """Parse as many complete frames as buf holds.

    Returns (frames, consumed_bytes).  Never raises on malformed input: defects
    are listed in frame.defects.
    """
    frames = []
    pos = 0
    n = len(buf)
    while n - pos >= 9:
        length = (buf[pos] << 16) | (buf[pos + 1] << 8) | buf[pos + 2]
        if n - pos - 9 < length:
            break
        ftype = buf[pos + 3]
        flags = buf[pos + 4]
        sid = struct.unpack('>I', bytes(buf[pos + 5:pos + 9]))[0]
        f = Frame(ftype, flags, sid & 0x7fffffff, bytes(buf[pos + 9:pos + 9 + length]),
                  r_bit=sid >> 31, offset=offset + pos)
        _parse_body(f)
        frames.append(f)
        pos += 9 + length
    return frames, pos


class StreamParser(object):
    """Incremental strict parser for one direction of a connection.

    feed(bytes) returns the list of newly completed frames.  Tracks the
    cross-frame rules: client preface, header-block contiguity, END_HEADERS
    placement.  Cross-frame defects are appended to the offending frame's
    .defects (and to self.defects with the frame index).
    """

    def __init__(self, expect_preface):
        self.buf = bytearray()
        self.consumed = 0
        self.expect_preface = expect_preface
        self.preface_ok = not expect_preface
        self.preface_bad = False
        self.frames = []
        self.defects = []
        self._block_sid = None       # stream id of the open header block, if any
        self.first_frame_checked = False

    def feed(self, data):
        self.buf += data
        out = []
        if not self.preface_ok:
            if self.preface_bad:
                return out
            k = min(len(self.buf), len(PREFACE))
            if bytes(self.buf[:k]) != PREFACE[:k]:
                self.preface_bad = True
                self.defects.append((len(self.frames), 'bad-preface'))
                return out
            if len(self.buf) < len(PREFACE):
                return out
            del self.buf[:len(PREFACE)]
            self.consumed += len(PREFACE)
            self.preface_ok = True
        frames, used = parse_frames(self.buf, self.consumed)
        del self.buf[:used]
        self.consumed += used
        for f in frames:
            self._cross_checks(f)
            for d in f.defects:
                self.defects.append((len(self.frames), d))
            self.frames.append(f)
            out.append(f)
        return out

    def _cross_checks(self, f):
        if not self.first_frame_checked:
            self.first_frame_checked = True
            if f.type != SETTINGS or f.ack:
                f.defects.append('first-frame-not-settings')
        if self._block_sid is not None:
            if f.type != CONTINUATION or f.stream_id != self._block_sid:
                f.defects.append('header-block-interrupted')
                self._block_sid = None
            elif f.end_headers:
                self._block_sid = None
        elif f.type == CONTINUATION:
            f.defects.append('naked-continuation')
        if f.type in (HEADERS, PUSH_PROMISE) and not f.end_headers and 'header-block-interrupted' not in f.defects:
            self._block_sid = f.stream_id

    @property
    def pending(self):
        return len(self.buf)

    @property
    def in_header_block(self):
        return self._block_sid is not None


# --------------------------------------------------------------------------
# builders

def raw_frame(ftype, flags, stream_id, payload, length=None, r_bit=0):
    """Serialise a frame; `length` overrides the length field (malformed frames)."""
    if length is None:
        length = len(payload)
    return (struct.pack('>I', length & 0xffffff)[1:] + bytes([ftype & 0xff, flags & 0xff]) +
            struct.pack('>I', (stream_id & 0x7fffffff) | (r_bit << 31)) + payload)


def _pad(body, pad):
    if pad is None:
        return 0, body
    return F_PADDED, bytes([pad]) + body + b'\0' * pad


def _prio_fields(depends_on, exclusive, weight):
    return struct.pack('>IB', (depends_on & 0x7fffffff) | ((1 << 31) if exclusive else 0), weight & 0xff)


def build_data(sid, data=b'', end_stream=False, pad=None, flags_extra=0):
    fl, body = _pad(data, pad)
    if end_stream:
        fl |= F_END_STREAM
    return raw_frame(DATA, fl | flags_extra, sid, body)


def build_headers(sid, block, end_stream=False, end_headers=True, pad=None, priority=None,
                  flags_extra=0):
    """priority = (depends_on, exclusive, weight_wire) or None."""
    body = block
    fl = 0
    if priority is not None:
        body = _prio_fields(*priority) + body
        fl |= F_PRIORITY
    pfl, body = _pad(body, pad)
    fl |= pfl
    if end_stream:
        fl |= F_END_STREAM
    if end_headers:
        fl |= F_END_HEADERS
    return raw_frame(HEADERS, fl | flags_extra, sid, body)


def build_continuation(sid, block, end_headers=True, flags_extra=0):
    return raw_frame(CONTINUATION, (F_END_HEADERS if end_headers else 0) | flags_extra, sid, block)


def build_priority(sid, depends_on=0, exclusive=False, weight=15):
    return raw_frame(PRIORITY, 0, sid, _prio_fields(depends_on, exclusive, weight))


def build_rst(sid, code=0):
    return raw_frame(RST_STREAM, 0, sid, struct.pack('>I', code & 0xffffffff))


def build_settings(pairs=(), ack=False, sid=0):
    body = b''.join(struct.pack('>HI', k & 0xffff, v & 0xffffffff) for k, v in pairs)
    return raw_frame(SETTINGS, F_ACK if ack else 0, sid, body)


def build_push_promise(sid, promised, block, end_headers=True, pad=None):
    fl, body = _pad(struct.pack('>I', promised & 0xffffffff) + block, pad)
    if end_headers:
        fl |= F_END_HEADERS
    return raw_frame(PUSH_PROMISE, fl, sid, body)


def build_ping(opaque=b'\0' * 8, ack=False, sid=0):
    return raw_frame(PING, F_ACK if ack else 0, sid, opaque)


def build_goaway(last=0, code=0, debug=b'', sid=0):
    return raw_frame(GOAWAY, 0, sid, struct.pack('>II', last & 0x7fffffff, code & 0xffffffff) + debug)


def build_window_update(sid, inc):
    return raw_frame(WINDOW_UPDATE, 0, sid, struct.pack('>I', inc & 0xffffffff))


def build_altsvc(sid, origin=b'', field=b''):
    return raw_frame(ALTSVC, 0, sid, struct.pack('>H', len(origin)) + origin + field)


def split_block(sid, block, sizes, first_builder, **kw):
    """Emit a header block split into HEADERS/PUSH_PROMISE + CONTINUATIONs at the given sizes."""
    parts = []
    pos = 0
    for s in sizes:
        parts.append(block[pos:pos + s])
        pos += s
    parts.append(block[pos:])
    out = first_builder(parts[0], end_headers=(len(parts) == 1), **kw)
    for i, p in enumerate(parts[1:]):
        out += build_continuation(sid, p, end_headers=(i == len(parts) - 2))
    return out
