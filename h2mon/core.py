"""Shared harness pieces: boundary recorder (Tap), event canonicalisation,
shard report, exception mechanism keys, FSM coverage wrapper."""
import copy
import hashlib
import json
import random
import traceback
from collections import Counter

import h2.connection
import h2.config
import h2.events
import h2.exceptions
import h2.settings
import h2.stream

from . import wire


# ---------------------------------------------------------------------------
# helpers

def jsonable(x, depth=0):
    if isinstance(x, (bytes, bytearray)):
        if len(x) > 64:
            return {'hex': bytes(x[:48]).hex() + '..', 'len': len(x)}
        return {'hex': bytes(x).hex()}
    if isinstance(x, (list, tuple)):
        if len(x) > 40 and depth:
            return [jsonable(i, depth + 1) for i in x[:40]] + ['.. %d more' % (len(x) - 40)]
        return [jsonable(i, depth + 1) for i in x]
    if isinstance(x, dict):
        return {str(k): jsonable(v, depth + 1) for k, v in x.items()}
    if isinstance(x, (int, str, bool, float)) or x is None:
        if isinstance(x, int) and not isinstance(x, bool):
            return int(x)
        return x
    return repr(x)


def h64(obj):
    """Stable 64-bit hash of a JSON-able / repr-able object."""
    s = repr(obj).encode('utf-8', 'replace')
    return int.from_bytes(hashlib.blake2b(s, digest_size=8).digest(), 'big')


def case_rng(seed, prop, idx):
    return random.Random('%s:%s:%d' % (seed, prop, idx))


def exc_key(e):
    """Mechanism key of an exception: type + innermost function inside h2/hpack/hyperframe."""
    tb = traceback.extract_tb(e.__traceback__)
    where = None
    for fr in tb:
        fn = fr.filename.replace('\\', '/')
        for lib in ('/h2/', '/hpack/', '/hyperframe/'):
            if lib in fn:
                where = '%s%s:%s' % (lib.strip('/'), '', fr.name)
    return '%s@%s' % (type(e).__name__, where or '?')


def is_h2_error(e):
    return isinstance(e, h2.exceptions.H2Error)


def is_protocol_error(e):
    return isinstance(e, h2.exceptions.ProtocolError)


# ---------------------------------------------------------------------------
# canonical event form

_HEADER_EVENTS = ('RequestReceived', 'ResponseReceived', 'TrailersReceived',
                  'InformationalResponseReceived', 'PushedStreamReceived')


def canon_headers(hs):
    out = []
    for h in hs or []:
        n, v = h[0], h[1]
        if isinstance(n, str):
            n = n.encode('utf-8', 'surrogateescape')
        if isinstance(v, str):
            v = v.encode('utf-8', 'surrogateescape')
        out.append((bytes(n), bytes(v)))
    return out


def canon_event(ev, evlist=None):
    """Structural form of an event: (type name, sorted attribute items).

    Related events (stream_ended, priority_updated) become the index of the
    referenced object in `evlist` by identity, 'ABSENT' when None and
    'DANGLING' when the object is not in the list.
    """
    name = type(ev).__name__
    d = {}
    for k, v in sorted(vars(ev).items()):
        if k in ('stream_ended', 'priority_updated'):
            if v is None:
                d[k] = None
            elif evlist is None:
                d[k] = 'REL'
            else:
                idx = next((i for i, o in enumerate(evlist) if o is v), None)
                d[k] = ('idx', idx) if idx is not None else 'DANGLING'
        elif k == 'headers':
            d[k] = canon_headers(v)
        elif k == 'changed_settings':
            d[k] = sorted((int(c), (None if s.original_value is None else int(s.original_value)),
                           (None if s.new_value is None else int(s.new_value)), int(s.setting))
                          for c, s in v.items())
        elif k == 'frame':
            d[k] = (getattr(v, 'type', None), getattr(v, 'stream_id', None),
                    sorted(getattr(v, 'flags', []) or []), bytes(getattr(v, 'body', b'') or b''))
        elif k == 'error_code':
            d[k] = int(v) if v is not None else None
        elif isinstance(v, (bytes, bytearray, memoryview)):
            d[k] = bytes(v)
        elif isinstance(v, bool) or v is None:
            d[k] = v
        elif isinstance(v, int):
            d[k] = int(v)
        else:
            d[k] = v
    return (name, tuple(sorted(d.items(), key=lambda kv: kv[0])))


def canon_events(evs):
    return [canon_event(e, evs) for e in evs]


def ev_brief(ev):
    name = type(ev).__name__
    d = {}
    for k, v in vars(ev).items():
        if k in ('stream_ended', 'priority_updated'):
            d[k] = None if v is None else type(v).__name__
        elif k == 'changed_settings':
            d[k] = {str(int(c)): [s.original_value, s.new_value] for c, s in v.items()}
        else:
            d[k] = jsonable(v)
    return {name: d}


# ---------------------------------------------------------------------------
# connection factory and Tap

def make_conn(client, **cfg):
    config = h2.config.H2Configuration(client_side=client, **cfg)
    return h2.connection.H2Connection(config=config)


class CallResult(object):
    __slots__ = ('value', 'exc', 'out', 'frames', 'events')

    def __init__(self, value, exc, out, frames):
        self.value = value
        self.exc = exc
        self.out = out
        self.frames = frames
        self.events = value if isinstance(value, list) else []

    @property
    def ok(self):
        return self.exc is None


class Tap(object):
    """Boundary recorder around one real H2Connection.

    Every call goes through call(); after each call the output buffer is
    drained (unless drain=False) and parsed with the independent codec.  The
    history (self.log) is JSON-serialisable and is what replay files contain.
    """

    def __init__(self, conn, name='E', keep_log=True):
        self.c = conn
        self.name = name
        self.client = conn.config.client_side
        self.log = [] if keep_log else None
        self.parser = wire.StreamParser(expect_preface=self.client)
        self.frames = []            # every frame emitted so far
        self.nbytes_out = 0
        self.closed_by_exc = False
        self.watch_events = False   # keep every returned event list with a digest taken at return time
        self.returned = []
        self.read_rng = None        # when set: the output is sometimes fetched as data_to_send(k) followed by data_to_send()
        self.scramble = False       # when set: mutable arguments are private copies that are wrecked right after the call,
                                    # like an application that reuses its lists, dicts and buffers
        self.scrambled = 0

    def changed_after_return(self):
        """Event lists whose content no longer reads as it did when receive_data returned them (the library kept a
        reference and went on changing it).  Returns [(call index, digest then, digest now)]."""
        out = []
        for i, (value, then) in enumerate(self.returned):
            now = repr(canon_events(value))
            if now != then:
                out.append((i, then, now))
        return out

    def clone(self):
        t = Tap.__new__(Tap)
        t.c = copy.deepcopy(self.c)
        t.name = self.name + "'"
        t.client = self.client
        t.log = None
        t.parser = copy.deepcopy(self.parser)
        t.frames = list(self.frames)
        t.nbytes_out = self.nbytes_out
        t.closed_by_exc = self.closed_by_exc
        t.watch_events = False
        t.returned = []
        t.read_rng = None
        t.scramble = False
        t.scrambled = 0
        return t

    @staticmethod
    def _own(a):
        if isinstance(a, list):
            return list(a)
        if isinstance(a, dict):
            return dict(a)
        if isinstance(a, bytearray):
            return bytearray(a)
        return a

    def _wreck(self, a):
        if isinstance(a, list):
            a[:] = [(b':wrecked-by-the-caller', b'after the call returned')] * 3
            self.scrambled += 1
        elif isinstance(a, dict):
            a.clear()
            a[4] = 7
            a[0x4242] = 1
            self.scrambled += 1
        elif isinstance(a, bytearray):
            a[:] = b'\xff' * len(a)
            self.scrambled += 1

    def call(self, op, *args, **kw):
        drain = kw.pop('_drain', True)
        rec = None
        if self.log is not None:
            rec = {'ep': self.name, 'op': op, 'args': jsonable(list(args))}
            if kw:
                rec['kw'] = jsonable(kw)
            self.log.append(rec)
        value = exc = None
        owned = None
        if self.scramble:
            args = tuple(self._own(a) for a in args)
            kw = {k: self._own(v) for k, v in kw.items()}
            owned = list(args) + list(kw.values())
        try:
            value = getattr(self.c, op)(*args, **kw)
        except Exception as e:       # noqa: broad on purpose: the boundary observes everything
            exc = e
            if rec is not None:
                rec['exc'] = type(e).__name__
                code = getattr(e, 'error_code', None)
                if code is not None:
                    try:
                        rec['code'] = int(code)
                    except Exception:
                        rec['code'] = repr(code)
        if owned is not None:
            for a in owned:
                self._wreck(a)
        if self.watch_events and isinstance(value, list) and value:
            self.returned.append((value, repr(canon_events(value))))
        out = b''
        frames = []
        if drain:
            if self.read_rng is not None and self.read_rng.random() < 0.3:
                # any sequence of reads yields a partition of the same bytes (C21): a short read, then the rest
                out = self.c.data_to_send(self.read_rng.choice([1, 5, 9, 17, 100, 20000]))
                out += self.c.data_to_send()
            else:
                out = self.c.data_to_send()
            self.nbytes_out += len(out)
            frames = self.parser.feed(out)
            self.frames.extend(frames)
        if rec is not None:
            if out:
                rec['out'] = [f.brief() for f in frames] if len(out) < 600 else \
                    [f.brief() for f in frames[:12]]
                rec['out_len'] = len(out)
            if isinstance(value, list) and value and op == 'receive_data':
                rec['events'] = [ev_brief(e) for e in value[:30]]
            elif value is not None and not isinstance(value, list):
                rec['ret'] = jsonable(value)
        return CallResult(value, exc, out, frames)

    def recv(self, data):
        return self.call('receive_data', data)

    def tail_log(self, n=40):
        return (self.log or [])[-n:]


# ---------------------------------------------------------------------------
# FSM coverage (auxiliary evidence): wrap process_input on the classes.

FSM_STREAM = set()
FSM_CONN = set()
_fsm_installed = False


def install_fsm_coverage():
    global _fsm_installed
    if _fsm_installed:
        return
    _fsm_installed = True
    try:
        s_cls = h2.stream.H2StreamStateMachine
        c_cls = h2.connection.H2ConnectionStateMachine
        s_orig = s_cls.process_input
        c_orig = c_cls.process_input

        def s_wrap(self, input_):
            FSM_STREAM.add((getattr(self.state, 'name', self.state), getattr(input_, 'name', input_)))
            return s_orig(self, input_)

        def c_wrap(self, input_):
            FSM_CONN.add((getattr(self.state, 'name', self.state), getattr(input_, 'name', input_)))
            return c_orig(self, input_)

        s_cls.process_input = s_wrap
        c_cls.process_input = c_wrap
    except Exception:
        pass


# ---------------------------------------------------------------------------
# shard report

class Report(object):
    def __init__(self, prop):
        self.prop = prop
        self.counters = Counter()
        self.violations = {}        # mechanism_key -> dict(first witness, count, case)
        self.distinct = set()
        self.samples = []
        self.auto_samples = []
        self.cases = 0
        self.case_idx = None
        self.harness_errors = []
        self.notes = Counter()      # free-form small-cardinality observations
        self.sets = {}              # name -> set of small strings (observed classes)

    def count(self, name, n=1):
        self.counters[name] += n

    def observe(self, setname, value):
        self.sets.setdefault(setname, set()).add(value)

    def nontrivial(self, sig):
        self.distinct.add(h64(sig))
        if len(self.auto_samples) < 2:
            self.auto_samples.append({'case': self.case_idx, 'case_signature': jsonable(sig)})

    def sample(self, obj, limit=3):
        if len(self.samples) < limit:
            self.samples.append(jsonable(obj))

    def violation(self, key, what, witness=None):
        """Record a violation.  key = stable mechanism key; what = one-line description."""
        v = self.violations.get(key)
        if v is None:
            self.violations[key] = {'key': key, 'what': what, 'case': self.case_idx,
                                    'witness': jsonable(witness), 'count': 1}
        else:
            v['count'] += 1

    def to_json(self):
        return {
            'prop': self.prop,
            'cases': self.cases,
            'counters': dict(self.counters),
            'violations': list(self.violations.values()),
            'distinct': sorted(self.distinct),
            'samples': self.samples or self.auto_samples,
            'harness_errors': self.harness_errors[:5],
            'sets': {k: sorted(v) for k, v in self.sets.items()},
            'fsm_stream': sorted('%s/%s' % p for p in FSM_STREAM),
            'fsm_conn': sorted('%s/%s' % p for p in FSM_CONN),
        }
