"""Worker: runs cases [start, start+count) of one check and writes a JSON report."""
import importlib
import json
import sys
import traceback


def main():
    prop, seed, tier, start, count, out = sys.argv[1:7]
    seed = int(seed)
    start = int(start)
    count = int(count)
    from h2mon import core
    core.install_fsm_coverage()
    mod = importlib.import_module('h2mon.checks.%s' % prop.lower())
    rep = core.Report(prop)
    if hasattr(mod, 'setup'):
        mod.setup(tier)
    for idx in range(start, start + count):
        rep.case_idx = idx
        rng = core.case_rng(seed, prop, idx)
        try:
            mod.run_case(idx, rng, tier, rep)
        except Exception:
            rep.harness_errors.append({'case': idx, 'tb': traceback.format_exc()[-3000:]})
            if len(rep.harness_errors) > 20:
                break
        rep.cases += 1
    rep.case_idx = None
    if hasattr(mod, 'finish'):
        mod.finish(rep, tier)
    with open(out, 'w') as f:
        json.dump(rep.to_json(), f, default=str)


if __name__ == '__main__':
    main()
