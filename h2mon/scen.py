"""Scenario helper: one real endpoint E (either role) against a scripted peer that
speaks through the independent codec.  Keeps just enough book-keeping to build
valid-by-construction prefixes that reach chosen stream / connection states."""
import hpack

from . import core, wire, hpackmini as hm

REQ = [(b':method', b'GET'), (b':scheme', b'https'), (b':authority', b'example.com'), (b':path', b'/')]
REQ_POST = [(b':method', b'POST'), (b':scheme', b'https'), (b':authority', b'example.com'), (b':path', b'/p')]
RESP = [(b':status', b'200')]
INFO = [(b':status', b'100')]
TRAILERS = [(b'x-trailer', b't')]


def hb(headers, mode=hm.WITHOUT_INDEXING):
    return hm.encode(headers, mode)


class Hostile(object):
    def __init__(self, e_client, cfg=None, peer_settings=(), e_settings=None, handshake=True, keep_log=True,
                 observer=None):
        self.e_client = e_client
        self.t = core.Tap(core.make_conn(e_client, **(cfg or {})), keep_log=keep_log)
        self.c = self.t.c
        self.peer_next = 2 if e_client else 1      # ids the peer opens (client peer) / promises (server peer)
        self.e_next = 1 if e_client else 2
        self.mdec = hpack.Decoder()                # monitor-owned decoder for E's output
        self.mdec.max_header_list_size = 0 if False else 2 ** 30
        self.peer_settings = list(peer_settings)
        self.delivered = []                        # every chunk handed to receive_data
        self.observer = observer                   # callable(data, CallResult) invoked after every delivery
        self.block_prefix = b''                    # prepended to every header block the peer helpers build (table size updates)
        if handshake:
            self.handshake(e_settings)

    # -- connection set-up ---------------------------------------------------
    def handshake(self, e_settings=None):
        r0 = self.t.call('initiate_connection')
        pre = (b'' if self.e_client else wire.PREFACE) + wire.build_settings(self.peer_settings)
        r1 = self.send(pre)
        r2 = self.send(wire.build_settings(ack=True))     # ACK of E's initial SETTINGS
        if e_settings:
            self.t.call('update_settings', dict(e_settings))
            self.send(wire.build_settings(ack=True))
        return r0, r1, r2

    def send(self, data):
        self.delivered.append(data)
        res = self.t.call('receive_data', data)
        if self.observer is not None:
            self.observer(data, res)
        return res

    # -- stream helpers --------------------------------------------------------
    def peer_request(self, headers=None, end_stream=False, sid=None, **kw):
        """Peer (a client) opens a stream at E (a server)."""
        assert not self.e_client
        if sid is None:
            sid = self.peer_next
            self.peer_next += 2
        r = self.send(wire.build_headers(sid, self.block_prefix + hb(headers or REQ), end_stream=end_stream, **kw))
        return sid, r

    def e_request(self, headers=None, end_stream=False, sid=None, **kw):
        """E (a client) opens a stream."""
        assert self.e_client
        if sid is None:
            sid = self.e_next
            self.e_next += 2
        r = self.t.call('send_headers', sid, headers or REQ, end_stream=end_stream, **kw)
        return sid, r

    def open_stream(self, end_stream=False, headers=None):
        """Open a stream in the natural direction for E's role (peer-initiated at a server E,
        E-initiated at a client E).  Returns sid."""
        if self.e_client:
            sid, r = self.e_request(headers=headers, end_stream=end_stream)
        else:
            sid, r = self.peer_request(headers=headers, end_stream=end_stream)
        assert r.ok, r.exc
        return sid

    def peer_headers(self, sid, headers, end_stream=False, **kw):
        return self.send(wire.build_headers(sid, self.block_prefix + hb(headers), end_stream=end_stream, **kw))

    def peer_data(self, sid, data=b'x', end_stream=False, pad=None):
        return self.send(wire.build_data(sid, data, end_stream=end_stream, pad=pad))

    def reach(self, state):
        """Drive one stream into `state` as seen by E; returns sid.

        States: open, hc_remote (peer ended), hc_local (E ended), closed_es (both ended),
        closed_rst_recv (peer reset), closed_rst_sent (E reset).
        Both directions have exchanged their first header block where the role needs it.
        """
        c = self.e_client
        if state == 'idle':
            sid = self.e_next if c else self.peer_next
            return sid
        if state == 'open':
            sid = self.open_stream()
            if c:
                pass
            return sid
        if state == 'open_resp':          # open with the response headers already exchanged
            sid = self.open_stream()
            if c:
                assert self.peer_headers(sid, RESP).ok
            else:
                assert self.t.call('send_headers', sid, RESP).ok
            return sid
        if state == 'hc_remote':
            if c:
                sid = self.open_stream()
                assert self.peer_headers(sid, RESP, end_stream=True).ok
            else:
                sid = self.open_stream(end_stream=True)
            return sid
        if state == 'hc_local':
            if c:
                sid = self.open_stream(end_stream=True)
            else:
                sid = self.open_stream()
                assert self.t.call('send_headers', sid, RESP, end_stream=True).ok
            return sid
        if state == 'closed_es':
            if c:
                sid = self.open_stream(end_stream=True)
                assert self.peer_headers(sid, RESP, end_stream=True).ok
            else:
                sid = self.open_stream(end_stream=True)
                assert self.t.call('send_headers', sid, RESP, end_stream=True).ok
            return sid
        if state == 'closed_rst_recv':
            sid = self.open_stream()
            assert self.send(wire.build_rst(sid, wire.CANCEL)).ok
            return sid
        if state == 'closed_rst_sent':
            sid = self.open_stream()
            assert self.t.call('reset_stream', sid, wire.CANCEL).ok
            return sid
        raise ValueError(state)

    def cleanup(self):
        """Force E to forget closed streams (reading the open-stream counters triggers it)."""
        self.t.call('__getattribute__', 'open_outbound_streams')
        self.t.call('__getattribute__', 'open_inbound_streams')

    # -- decoding E's output -------------------------------------------------
    def decode_blocks(self, frames):
        """Decode the header blocks among `frames` (in order) with the monitor decoder.
        Returns list of (first_frame, headers or exception)."""
        out = []
        cur = None
        buf = b''
        for f in frames:
            if f.type in (wire.HEADERS, wire.PUSH_PROMISE):
                cur, buf = f, f.data or b''
            elif f.type == wire.CONTINUATION and cur is not None:
                buf += f.data or b''
            else:
                continue
            if f.end_headers and cur is not None:
                try:
                    dec = self.mdec.decode(buf, raw=True)
                    hs = [(bytes(n), bytes(v)) for n, v in dec]
                    self.last_decoded_flags = [(bytes(x[0]), bytes(x[1]), getattr(x, 'indexable', True) is False) for x in dec]
                    out.append((cur, hs))
                except Exception as e:        # noqa
                    out.append((cur, e))
                cur = None
                buf = b''
        return out
