"""Parent side of `./check Cxx`: shards cases over worker subprocesses, merges
reports, consults known_findings.json, writes evidence and replay files."""
import argparse
import importlib
import json
import os
import subprocess
import sys
import tempfile
import time
from concurrent.futures import ThreadPoolExecutor

HERE = os.path.dirname(os.path.dirname(os.path.abspath(__file__)))     # /verif
PY = os.environ.get('H2MON_PYTHON', '/venv/bin/python')
FINDINGS = os.path.join(HERE, 'known_findings.json')
# H2MON_OUT redirects evidence and replay files (used when a check is pointed at a scratch copy of the library,
# so that results about a modified tree never replace the evidence about /repo itself)
OUT = os.environ.get('H2MON_OUT', HERE)
EVIDENCE_DIR = os.path.join(OUT, 'evidence')
REPLAY_DIR = os.path.join(OUT, 'replays')


def src_dir():
    return os.environ.get('H2MON_SRC', '/repo/src')


def child_env(hashseed='0'):
    env = dict(os.environ)
    env['PYTHONPATH'] = src_dir() + os.pathsep + HERE
    env['PYTHONDONTWRITEBYTECODE'] = '1'
    env['PYTHONHASHSEED'] = hashseed
    return env


def load_findings():
    try:
        with open(FINDINGS) as f:
            d = json.load(f)
    except FileNotFoundError:
        d = {}
    return d.get('known', []), d.get('fixed', [])


def _run_shard(args):
    prop, seed, tier, start, count, timeout = args
    fd, out = tempfile.mkstemp(prefix='h2mon-%s-' % prop, suffix='.json')
    os.close(fd)
    cmd = [PY, '-m', 'h2mon.worker', prop, str(seed), tier, str(start), str(count), out]
    t0 = time.time()
    try:
        p = subprocess.run(cmd, env=child_env(), cwd=HERE, timeout=timeout,
                           stdout=subprocess.PIPE, stderr=subprocess.PIPE)
        if p.returncode != 0:
            return {'failed': 'worker exit %d: %s' % (p.returncode, p.stderr.decode('utf-8', 'replace')[-2000:])}
        with open(out) as f:
            rep = json.load(f)
        rep['wall'] = time.time() - t0
        return rep
    except subprocess.TimeoutExpired:
        return {'failed': 'worker timeout after %ds (start=%d count=%d)' % (timeout, start, count)}
    finally:
        try:
            os.unlink(out)
        except OSError:
            pass


def merge(reports):
    m = {'cases': 0, 'counters': {}, 'violations': {}, 'distinct': set(), 'samples': [],
         'harness_errors': [], 'sets': {}, 'fsm_stream': set(), 'fsm_conn': set(), 'failed': []}
    for r in reports:
        if 'failed' in r:
            m['failed'].append(r['failed'])
            continue
        m['cases'] += r['cases']
        for k, v in r['counters'].items():
            m['counters'][k] = m['counters'].get(k, 0) + v
        for v in r['violations']:
            cur = m['violations'].get(v['key'])
            if cur is None:
                m['violations'][v['key']] = dict(v)
            else:
                cur['count'] += v['count']
                if v['case'] is not None and (cur['case'] is None or v['case'] < cur['case']):
                    cnt = cur['count']
                    cur.update(v)
                    cur['count'] = cnt
        m['distinct'].update(r['distinct'])
        for s in r['samples']:
            if len(m['samples']) < 3:
                m['samples'].append(s)
        m['harness_errors'].extend(r['harness_errors'])
        for k, v in r['sets'].items():
            m['sets'].setdefault(k, set()).update(v)
        m['fsm_stream'].update(r['fsm_stream'])
        m['fsm_conn'].update(r['fsm_conn'])
    return m


def main(argv=None):
    ap = argparse.ArgumentParser()
    ap.add_argument('prop', nargs='?')
    ap.add_argument('--tier', default=os.environ.get('VERIF_TIER', 'quick'))
    ap.add_argument('--replay')
    ap.add_argument('--jobs', type=int, default=int(os.environ.get('H2MON_JOBS', os.cpu_count() or 4)))
    ap.add_argument('--cases', type=int, default=None, help='override case budget (debugging)')
    a = ap.parse_args(argv)
    if a.tier not in ('quick', 'thorough'):
        a.tier = 'quick'
    try:
        seed = int(os.environ.get('VERIF_SEED', '0'))
    except ValueError:
        seed = 0

    if a.replay:
        return replay(a.replay)
    if not a.prop:
        ap.error('property id required')
    prop = a.prop.upper()
    sys.path.insert(0, src_dir())
    sys.path.insert(0, HERE)
    os.environ.setdefault('PYTHONHASHSEED', '0')
    mod = importlib.import_module('h2mon.checks.%s' % prop.lower())
    t0 = time.time()
    if hasattr(mod, 'parent_main'):
        # checks that orchestrate their own subprocesses (C28)
        m = mod.parent_main(seed, a.tier, a.jobs, a.cases)
    else:
        n = a.cases if a.cases is not None else mod.n_cases(a.tier)
        shard_timeout = getattr(mod, 'SHARD_TIMEOUT', {'quick': 900, 'thorough': 6 * 3600})[a.tier]
        jobs = max(1, min(a.jobs, n))
        nshards = jobs * (4 if a.tier == 'thorough' else 1)
        nshards = max(1, min(nshards, n))
        per = (n + nshards - 1) // nshards
        tasks = []
        start = 0
        while start < n:
            c = min(per, n - start)
            tasks.append((prop, seed, a.tier, start, c, shard_timeout))
            start += c
        with ThreadPoolExecutor(max_workers=jobs) as ex:
            reports = list(ex.map(_run_shard, tasks))
        m = merge(reports)
    wall = time.time() - t0
    return conclude(prop, mod, m, seed, a.tier, wall)


def conclude(prop, mod, m, seed, tier, wall):
    known, _fixed = load_findings()
    known_keys = {k['key']: k for k in known if k.get('property') == prop}
    new_viol = []
    known_hit = []
    for key, v in sorted(m['violations'].items()):
        if key in known_keys:
            known_hit.append((known_keys[key], v))
        else:
            new_viol.append(v)

    # inconclusive?
    inconclusive = []
    if m['failed']:
        inconclusive.append('worker failures: %s' % '; '.join(m['failed'])[:1500])
    if m['harness_errors']:
        inconclusive.append('harness errors: %s' % json.dumps(m['harness_errors'][:2])[:3000])
    minima = getattr(mod, 'MINIMA', {})
    if callable(minima):
        minima = minima(tier)
    for cname, mn in minima.items():
        if m['counters'].get(cname, 0) < mn:
            inconclusive.append('deciding counter %s=%d below minimum %d' % (cname, m['counters'].get(cname, 0), mn))

    os.makedirs(EVIDENCE_DIR, exist_ok=True)
    coverage = {
        'evaluations': m['cases'],
        'distinct_nontrivial': len(m['distinct']),
        'rule': getattr(mod, 'RULE', ''),
        'samples': m['samples'],
        'oracle_counters': dict(sorted(m['counters'].items())),
        'observed_sets': {k: sorted(v) for k, v in sorted(m['sets'].items())},
        'fsm_stream_pairs_exercised': len(m['fsm_stream']),
        'fsm_conn_pairs_exercised': len(m['fsm_conn']),
        'fsm_stream_pairs': sorted(m['fsm_stream']),
        'fsm_conn_pairs': sorted(m['fsm_conn']),
        'known_findings_reproduced': [k['key'] for k, _ in known_hit],
        'verdict': ('violated' if new_viol else ('inconclusive' if inconclusive else 'held on what was observed')),
    }
    ex = getattr(mod, 'EXHAUSTIVE', {}).get(tier)
    if ex:
        coverage['exhaustive'] = True
    if inconclusive:
        coverage['inconclusive_reasons'] = inconclusive
    ev = {
        'property_id': prop,
        'tier': tier,
        'seed': seed,
        'level': getattr(mod, 'LEVEL', 'exploration'),
        'coverage': coverage,
        'assumptions': getattr(mod, 'ASSUMPTIONS', []) + [
            'CPython /venv/bin/python, hpack and hyperframe as installed are trusted as libraries',
            'verdict covers only the executions produced by this run (seeded generators)'],
        'wall_s': round(wall, 2),
        'violations': len(new_viol),
    }
    with open(os.path.join(EVIDENCE_DIR, '%s.json' % prop), 'w') as f:
        json.dump(ev, f, indent=1, default=str)

    print('%s tier=%s seed=%d cases=%d distinct_nontrivial=%d wall=%.1fs' % (
        prop, tier, seed, m['cases'], len(m['distinct']), wall))
    for k, v in sorted(m['counters'].items()):
        print('  counter %-40s %d' % (k, v))
    for kf, v in known_hit:
        print('KNOWN-FINDING: property=%s %s [key=%s, seen %d times]' % (prop, kf.get('what', v['what']), kf['key'], v['count']))
    # known findings that did not reproduce in this run are still listed (informational)
    hit_keys = {kf['key'] for kf, _ in known_hit}
    for key, kf in sorted(known_keys.items()):
        if key not in hit_keys:
            print('KNOWN-FINDING: property=%s %s [key=%s, not reproduced in this run]' % (prop, kf.get('what', ''), key))
    rc = 0
    if new_viol:
        os.makedirs(REPLAY_DIR, exist_ok=True)
        for v in new_viol:
            safe = ''.join(ch if ch.isalnum() or ch in '-_.' else '_' for ch in v['key'])[:120]
            path = os.path.join(REPLAY_DIR, '%s-%s.json' % (prop, safe))
            with open(path, 'w') as f:
                json.dump({'property': prop, 'seed': seed, 'tier': tier, 'case': v['case'],
                           'key': v['key'], 'what': v['what'], 'witness': v['witness'],
                           'src': src_dir()}, f, indent=1, default=str)
            print('VIOLATION property=%s replay=%s' % (prop, path))
            print('  key=%s count=%d :: %s' % (v['key'], v['count'], v['what']))
        rc = 1
    elif inconclusive:
        for r in inconclusive:
            print('INCONCLUSIVE property=%s %s' % (prop, r))
        rc = 2
    else:
        print('HELD property=%s on %d cases' % (prop, m['cases']))
    return rc


def replay(path):
    with open(path) as f:
        r = json.load(f)
    prop = r['property']
    if r.get('case') is None:
        print('replay file has no case index; witness:\n%s' % json.dumps(r.get('witness'), indent=1)[:4000])
        return 2
    fd, out = tempfile.mkstemp(prefix='h2mon-replay-', suffix='.json')
    os.close(fd)
    try:
        cmd = [PY, '-m', 'h2mon.worker', prop, str(r['seed']), r['tier'], str(r['case']), '1', out]
        p = subprocess.run(cmd, env=child_env(), cwd=HERE, timeout=3600)
        if p.returncode != 0:
            print('replay worker failed')
            return 2
        with open(out) as f:
            rep = json.load(f)
    finally:
        os.unlink(out)
    if rep['violations']:
        for v in rep['violations']:
            print('VIOLATION property=%s replay=%s' % (prop, path))
            print('  key=%s :: %s' % (v['key'], v['what']))
            print(json.dumps(v['witness'], indent=1, default=str)[:6000])
        return 1
    print('replay of case %s: no violation' % r['case'])
    return 0


if __name__ == '__main__':
    sys.exit(main())
