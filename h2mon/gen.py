"""Generators shared by the hostile-peer workloads: header lists, HPACK blocks,
plausible peer traffic with optional hostile moves, byte mutation, chunking."""
from . import wire, hpackmini as hm

REQ_BASE = [(b':method', b'GET'), (b':scheme', b'https'), (b':authority', b'example.com'), (b':path', b'/')]
RESP_BASE = [(b':status', b'200')]

TOKENS = [b'x-a', b'x-b', b'accept', b'user-agent', b'x-long-header-name', b'cookie', b'x-tag',
          b'content-type', b'etag', b'server']
VALUES = [b'', b'1', b'v', b'value', b'text/html', b'a=b', b'0123456789' * 3, b'*/*']


def valid_headers(rng, kind, tag=None, extra=None):
    """A conformant header list for kind in request/response/informational/trailers/push."""
    if kind in ('request', 'push'):
        h = [(b':method', rng.choice([b'GET', b'POST', b'HEAD', b'PUT'])),
             (b':scheme', rng.choice([b'https', b'http'])),
             (b':authority', rng.choice([b'example.com', b'a.test', b'h:8080'])),
             (b':path', rng.choice([b'/', b'/index.html', b'/a/b?c=d']))]
        rng.shuffle(h)
    elif kind == 'response':
        h = [(b':status', rng.choice([b'200', b'404', b'204', b'304', b'500']))]
    elif kind == 'informational':
        h = [(b':status', rng.choice([b'100', b'103', b'199']))]
    else:
        h = []
    for _ in range(rng.randrange(0, 4) if extra is None else extra):
        h.append((rng.choice(TOKENS), rng.choice(VALUES)))
    if tag is not None:
        h.append((b'x-tag', str(tag).encode()))
    return h


NAME_ALPHABET = [b'a', b'b', b'z', b'A', b'Z', b':', b' ', b'\t', b'-', b'0', b'\x00', b'\x80', b'\xff', b'\n']


def adversarial_bytes(rng, maxlen=6, allow_empty=True):
    n = rng.randrange(0 if allow_empty else 1, maxlen + 1)
    return b''.join(rng.choice(NAME_ALPHABET) for _ in range(n))


def hostile_headers(rng, kind):
    """A header list with one or more rule violations or odd byte strings."""
    h = valid_headers(rng, kind)
    for _ in range(rng.randrange(1, 3)):
        m = rng.randrange(16)
        pos = rng.randrange(len(h) + 1)
        if m == 0:
            h.insert(pos, (b'', rng.choice(VALUES)))                      # empty name
        elif m == 1:
            h.insert(pos, (b'X-Upper', b'v'))
        elif m == 2:
            h.insert(pos, (rng.choice([b'connection', b'keep-alive', b'upgrade', b'transfer-encoding',
                                       b'proxy-connection']), b'close'))
        elif m == 3:
            h.insert(pos, (b'te', rng.choice([b'gzip', b'trailers', b'Trailers', b'trailers, gzip'])))
        elif m == 4 and h:
            h.pop(rng.randrange(len(h)))                                    # drop something (maybe pseudo)
        elif m == 5 and h:
            h.insert(pos, h[rng.randrange(len(h))])                         # duplicate
        elif m == 6:
            h.append((rng.choice([b':status', b':method', b':path', b':unknown', b':protocol', b':scheme']),
                      rng.choice([b'200', b'GET', b'/', b'', b'x'])))       # pseudo after regular / wrong role
        elif m == 7:
            h.insert(pos, (adversarial_bytes(rng), adversarial_bytes(rng)))
        elif m == 8:
            h.insert(pos, (b'x-bin', bytes([rng.randrange(128, 256) for _ in range(rng.randrange(1, 5))])))
        elif m == 9:
            h.insert(pos, (b' x-ws', b'v'))
        elif m == 10:
            h.insert(pos, (b'x-ws', rng.choice([b' v', b'v ', b'\tv', b'v\t', b' '])))
        elif m == 11:
            # numbers in odd shapes, incl. digit strings beyond what the interpreter converts without complaint (4300 digits)
            h.insert(pos, (b'content-length', rng.choice([b'0', b'5', b'-1', b'abc', b'', b'99999999999999999999', b'+5', b' 5', b'5 ', b'1_0',
                                                          b'\xd9\xa3', b'1' * 4300, b'1' * 4301, b'7' * 6000, b'0' * 5000])))
        elif m == 12:
            h.insert(pos, (b'host', rng.choice([b'example.com', b'other', b''])))
        elif m == 13:
            h = [(n, b'') if n == b':path' else (n, v) for n, v in h]
        elif m == 14:
            h.insert(pos, (bytes([rng.randrange(256)]) * rng.randrange(1, 4), b'v'))
        else:
            h.insert(pos, (b'cookie', rng.choice([b'a=b', b'c=d; e=f', b''])))
    return h


def hpack_block(rng, headers, hostile=0.0):
    """Encode with hpackmini; with probability `hostile` produce odd / malformed blocks."""
    mode = rng.choice([hm.WITHOUT_INDEXING, hm.WITHOUT_INDEXING, hm.INCREMENTAL, hm.NEVER])
    parts = []
    for n, v in headers:
        r = rng.random()
        if r < 0.15 and n == b':method' and v == b'GET':
            parts.append(hm.indexed(2))
        elif r < 0.15 and n == b':path' and v == b'/':
            parts.append(hm.indexed(4))
        elif r < 0.15 and n == b':scheme' and v == b'https':
            parts.append(hm.indexed(7))
        elif r < 0.15 and n == b':status' and v == b'200':
            parts.append(hm.indexed(8))
        else:
            parts.append(hm.literal(n, v, mode if rng.random() < 0.8 else rng.choice(
                [hm.WITHOUT_INDEXING, hm.INCREMENTAL, hm.NEVER])))
    if rng.random() < hostile:
        m = rng.randrange(10)
        pos = rng.randrange(len(parts) + 1)
        if m == 0:
            parts.insert(pos, hm.indexed(rng.choice([0, 62, 63, 100, 200, 5000, 2 ** 20])))
        elif m == 1:
            parts.insert(0, hm.table_size_update(rng.choice([0, 1, 100, 4096, 4097, 65536, 2 ** 30])))
        elif m == 2:
            parts.insert(max(1, pos), hm.table_size_update(rng.choice([0, 100, 4096])))
        elif m == 3:
            blk = b''.join(parts)
            return blk[:rng.randrange(len(blk) + 1)]                       # truncated
        elif m == 4:
            return bytes(rng.randrange(256) for _ in range(rng.randrange(0, 40)))   # garbage
        elif m == 5:
            parts.insert(pos, b'\x00' + b'\xff\xff\xff\xff\xff\xff\xff\xff\xff\x7f')   # huge length prefix
        elif m == 6:
            parts.insert(pos, b'\x00\x83\xff\xff\xff\x01v')                 # bad huffman name
        elif m == 7:
            parts.insert(pos, b'\x7f' + b'\xff' * rng.randrange(1, 12) + b'\x01')    # oversize integer index
        elif m == 8:
            parts.insert(pos, hm.literal(b'', b'', hm.INCREMENTAL, name_index=rng.choice([1, 61, 62, 70])))
        else:
            parts.insert(pos, b'\x80')                                      # index 0
    return b''.join(parts)


def chunkings(rng, data, k=None):
    """Split data into k random chunks (possibly empty ones)."""
    n = len(data)
    if k is None:
        k = rng.choice([1, 1, 2, 3, 5, 9])
    if k <= 1 or n == 0:
        return [data]
    cuts = sorted(rng.randrange(n + 1) for _ in range(k - 1))
    out = []
    prev = 0
    for c in cuts + [n]:
        out.append(data[prev:c])
        prev = c
    return out


def mutate_bytes(rng, data, nmut=None):
    b = bytearray(data)
    if nmut is None:
        nmut = rng.choice([1, 1, 1, 2, 3, 5])
    for _ in range(nmut):
        if not b:
            b += bytes([rng.randrange(256)])
            continue
        m = rng.randrange(8)
        i = rng.randrange(len(b))
        if m == 0:
            b[i] ^= 1 << rng.randrange(8)
        elif m == 1:
            b[i] = rng.randrange(256)
        elif m == 2:
            b.insert(i, rng.randrange(256))
        elif m == 3:
            del b[i]
        elif m == 4:
            j = rng.randrange(len(b))
            lo, hi = min(i, j), max(i, j)
            seg = b[lo:hi][:64]
            k = rng.randrange(len(b))
            b[k:k] = seg                                                    # splice / duplicate
        elif m == 5:
            del b[i:]                                                       # truncate
        elif m == 6:
            b[i] = rng.choice([0, 1, 0x7f, 0x80, 0xff])
        else:
            j = min(len(b), i + rng.randrange(1, 9))
            del b[i:j]
    return bytes(b)


class PeerGen(object):
    """Plausible traffic of a scripted peer talking to endpoint E.

    Tracks a rough per-stream model (enough to be valid most of the time) and
    emits one *message* (one or more frames) per call to step().  With
    probability `hostile` the message is deliberately illegal in structure,
    field values or HPACK content.
    """

    def __init__(self, rng, e_is_client, hostile=0.15, hdr_hostile=0.1):
        self.rng = rng
        self.e_is_client = e_is_client
        self.hostile = hostile
        self.hdr_hostile = hdr_hostile
        self.next_sid = 2 if e_is_client else 1       # ids the peer itself opens / promises
        self.open = {}           # sid -> state: 'need-headers' | 'open' | 'ended' | 'closed'
        self.e_streams = []      # streams E (a client) opened: peer may respond on them
        self.mfs = 16384
        self.tag = 0

    def preface(self, settings=()):
        out = b'' if self.e_is_client else wire.PREFACE
        return out + wire.build_settings(list(settings))

    def note_e_stream(self, sid):
        self.e_streams.append(sid)
        self.open[sid] = 'need-headers'

    def _hdr(self, kind):
        rng = self.rng
        self.tag += 1
        if rng.random() < self.hdr_hostile:
            hs = hostile_headers(rng, kind)
        else:
            hs = valid_headers(rng, kind, tag=self.tag)
        return hpack_block(rng, hs, hostile=self.hdr_hostile / 2)

    def _emit_headers(self, sid, block, end_stream, first=None, **kw):
        rng = self.rng
        pad = rng.choice([None, None, None, 0, 3])
        prio = None
        if rng.random() < 0.15:
            prio = (rng.choice([0, 1, 3, sid, 2 ** 31 - 1]), rng.random() < 0.5, rng.randrange(256))
        nsplit = rng.choice([0, 0, 0, 1, 2]) if len(block) > 2 else 0
        cuts = sorted(rng.randrange(len(block) + 1) for _ in range(nsplit))
        parts = []
        prev = 0
        for c in cuts + [len(block)]:
            parts.append(block[prev:c])
            prev = c
        if first is None:
            out = wire.build_headers(sid, parts[0], end_stream=end_stream, end_headers=(len(parts) == 1),
                                     pad=pad, priority=prio)
        else:
            out = first(parts[0], len(parts) == 1)
        for i, p in enumerate(parts[1:]):
            out += wire.build_continuation(sid, p, end_headers=(i == len(parts) - 2))
        return out

    def step(self):
        rng = self.rng
        if rng.random() < self.hostile:
            return self._hostile_step()
        return self._valid_step()

    def _live(self, states):
        return [s for s, st in self.open.items() if st in states]

    def _valid_step(self):
        rng = self.rng
        r = rng.random()
        if r < 0.22:
            # open a new stream (peer is client) or respond to one of E's (peer is server)
            if not self.e_is_client:
                sid = self.next_sid
                self.next_sid += 2
                es = rng.random() < 0.4
                self.open[sid] = 'ended' if es else 'open'
                return self._emit_headers(sid, self._hdr('request'), es)
            cands = self._live(('need-headers',))
            if cands:
                sid = rng.choice(cands)
                if rng.random() < 0.2:
                    return self._emit_headers(sid, self._hdr('informational'), False)
                es = rng.random() < 0.4
                self.open[sid] = 'ended' if es else 'open'
                return self._emit_headers(sid, self._hdr('response'), es)
        if r < 0.45:
            cands = self._live(('open',))
            if cands:
                sid = rng.choice(cands)
                es = rng.random() < 0.3
                if es:
                    self.open[sid] = 'ended'
                n = rng.choice([0, 1, 5, 100, 1000])
                return wire.build_data(sid, bytes(rng.randrange(256) for _ in range(min(n, 16))) * (1 if n <= 16 else n // 16),
                                       end_stream=es, pad=rng.choice([None, None, 0, 7, 255]))
        if r < 0.52:
            cands = self._live(('open',))
            if cands:
                sid = rng.choice(cands)
                self.open[sid] = 'ended'
                return self._emit_headers(sid, self._hdr('trailers'), True)
        if r < 0.60:
            cands = self._live(('open', 'ended', 'need-headers'))
            if cands:
                sid = rng.choice(cands)
                self.open[sid] = 'closed'
                return wire.build_rst(sid, rng.choice([0, 1, 8, 7, 0xdead]))
        if r < 0.68:
            sid = rng.choice([0] + list(self.open.keys())) if self.open else 0
            return wire.build_window_update(sid, rng.choice([1, 100, 65535, 2 ** 20]))
        if r < 0.74:
            return wire.build_ping(bytes(rng.randrange(256) for _ in range(8)), ack=rng.random() < 0.3)
        if r < 0.80:
            pairs = []
            for _ in range(rng.randrange(0, 4)):
                sid = rng.choice([1, 2, 3, 4, 5, 6, 8, 9, 0x10, 0xffff])
                val = {1: [0, 100, 4096, 65536], 2: [0, 1], 3: [0, 1, 100, 2 ** 32 - 1],
                       4: [0, 1, 65535, 2 ** 20, 2 ** 31 - 1], 5: [16384, 16385, 2 ** 24 - 1],
                       6: [0, 100, 65536, 2 ** 32 - 1], 8: [0, 1]}.get(sid, [0, 1, 2 ** 32 - 1])
                if sid == 2 and not self.e_is_client:
                    val = [0, 1]
                elif sid == 2:
                    val = [0]
                pairs.append((sid, rng.choice(val)))
            return wire.build_settings(pairs)
        if r < 0.84:
            return wire.build_settings((), ack=True)
        if r < 0.90:
            sid = rng.choice([1, 2, 3, 5, 7, 101, 2 ** 31 - 1] + list(self.open.keys()))
            dep = rng.choice([0, 1, 3, 5, 2 ** 31 - 1])
            if dep == sid:
                dep = 0
            return wire.build_priority(sid, dep, rng.random() < 0.5, rng.randrange(256))
        if r < 0.93:
            return wire.raw_frame(rng.choice([0x0b, 0x0c, 0x20, 0xff]), rng.randrange(256),
                                  rng.choice([0, 1, 2, 3]), bytes(rng.randrange(256) for _ in range(rng.randrange(0, 20))))
        if r < 0.96 and self.e_is_client:
            cands = [s for s in self.e_streams if self.open.get(s) in ('need-headers', 'open')]
            if cands:
                parent = rng.choice(cands)
                pid = self.next_sid
                self.next_sid += 2
                self.open[pid] = 'need-headers'
                blk = self._hdr('push')
                return self._emit_headers(parent, blk, False, first=lambda part, eh: wire.build_push_promise(
                    parent, pid, part, end_headers=eh, pad=rng.choice([None, None, 2])))
        if r < 0.98:
            origin = rng.choice([b'', b'example.com', b'https://a.test'])
            sid = rng.choice([0] + list(self.open.keys())) if self.open else 0
            return wire.build_altsvc(sid, origin, b'h2=":443"')
        if r < 0.985:
            return wire.build_goaway(rng.choice([0, 1, 3]), rng.choice([0, 1, 2, 11]), rng.choice([b'', b'bye']))
        return wire.build_ping(b'\0' * 8)

    def _hostile_step(self):
        rng = self.rng
        m = rng.randrange(26)
        sids = list(self.open.keys()) or [1]
        sid = rng.choice(sids)
        if m == 0:
            return wire.build_data(rng.choice([0, sid, self.next_sid, self.next_sid + 20]), b'abc',
                                   end_stream=rng.random() < 0.5)
        if m == 1:
            return wire.build_headers(rng.choice([0, 2, 4, 1, 3, sid]), self._hdr('request'), end_stream=rng.random() < 0.5)
        if m == 2:
            return wire.raw_frame(wire.PING, rng.choice([0, 1]), rng.choice([0, sid]),
                                  b'\0' * rng.choice([0, 7, 9, 8, 16]))
        if m == 3:
            return wire.raw_frame(wire.RST_STREAM, 0, rng.choice([0, sid, 99]), b'\0' * rng.choice([0, 3, 4, 5, 8]))
        if m == 4:
            return wire.raw_frame(wire.WINDOW_UPDATE, 0, rng.choice([0, sid, 99]),
                                  rng.choice([b'\0\0\0\0', b'\x7f\xff\xff\xff', b'\xff\xff\xff\xff', b'\0\0\0', b'\0' * 5]))
        if m == 5:
            return wire.raw_frame(wire.SETTINGS, rng.choice([0, 1]), rng.choice([0, 0, sid]),
                                  bytes(rng.randrange(256) for _ in range(rng.choice([0, 1, 5, 6, 7, 12, 18]))))
        if m == 6:
            return wire.raw_frame(wire.PRIORITY, 0, rng.choice([0, sid, 99]),
                                  bytes(rng.randrange(256) for _ in range(rng.choice([0, 4, 5, 6]))))
        if m == 7:
            return wire.build_priority(sid, sid, False, 10)                 # self dependency
        if m == 8:
            return wire.build_continuation(rng.choice([0, sid, 99]), b'\x82', end_headers=rng.random() < 0.5)
        if m == 9:
            # header block interrupted by another frame
            blk = self._hdr('request')
            return wire.build_headers(sid, blk, end_headers=False) + rng.choice(
                [wire.build_ping(), wire.build_data(sid, b'x'), wire.build_continuation(sid + 2, b''),
                 wire.build_headers(sid, blk)])
        if m == 10:
            # many continuations
            n = rng.choice([1, 5, 62, 63, 64, 65, 70, 70, 1200, 3000])
            blk = self._hdr('request')
            nsid = self.next_sid if not self.e_is_client else sid
            out = wire.build_headers(nsid, blk, end_headers=False)
            for i in range(n):
                out += wire.build_continuation(nsid, b'', end_headers=(i == n - 1))
            if not self.e_is_client:
                self.open[nsid] = 'open'
                self.next_sid += 2
            return out
        if m == 11:
            return wire.raw_frame(wire.DATA, wire.F_PADDED | rng.choice([0, 1]), sid,
                                  bytes([rng.choice([0, 1, 5, 255])]) + b'ab' * rng.choice([0, 1, 2]))
        if m == 12:
            return wire.raw_frame(wire.HEADERS, wire.F_PADDED | wire.F_END_HEADERS | rng.choice([0, 0x20]), sid,
                                  bytes([rng.choice([0, 1, 5, 255])]) + b'\x82' * rng.choice([0, 1, 4, 6]))
        if m == 13:
            return wire.raw_frame(wire.GOAWAY, 0, rng.choice([0, sid]), b'\0' * rng.choice([0, 4, 7, 8, 9]))
        if m == 14:
            return wire.raw_frame(wire.PUSH_PROMISE, wire.F_END_HEADERS | rng.choice([0, wire.F_PADDED]),
                                  rng.choice([0, sid, 99]),
                                  bytes(rng.randrange(256) for _ in range(rng.choice([0, 3, 4, 5, 10]))))
        if m == 15:
            return wire.build_push_promise(sid, rng.choice([0, 1, 3, 2, 4, self.next_sid, 2 ** 31 - 2]),
                                           self._hdr('push'))
        if m == 16:
            return wire.raw_frame(wire.ALTSVC, 0, rng.choice([0, sid]),
                                  bytes(rng.randrange(256) for _ in range(rng.choice([0, 1, 2, 3, 10]))))
        if m == 17:
            # length field lies
            fr = bytearray(wire.build_ping())
            fr[2] = rng.choice([0, 7, 9, 200])
            return bytes(fr)
        if m == 18:
            return wire.raw_frame(rng.randrange(256), rng.randrange(256), rng.choice([0, sid, 2 ** 31 - 1]),
                                  bytes(rng.randrange(256) for _ in range(rng.randrange(0, 30))), r_bit=rng.choice([0, 1]))
        if m == 19:
            r = rng.random()
            if r < 0.4:
                # oversize frame (default inbound limit is 16384)
                return wire.raw_frame(rng.choice([0, 1, 4, 6, 0x50]), 0, rng.choice([0, sid]),
                                      b'\0' * rng.choice([16385, 16390, 20000]))
            if r < 0.6:
                # decoded header list above the default MAX_HEADER_LIST_SIZE (65536)
                nsid = self.next_sid if not self.e_is_client else sid
                blk = hm.encode(REQ_BASE + [(b'x-big', b'v' * 8000)] * 9)
                out = wire.build_headers(nsid, blk[:16000], end_headers=False)
                pos = 16000
                while pos < len(blk):
                    out += wire.build_continuation(nsid, blk[pos:pos + 16000], end_headers=(pos + 16000 >= len(blk)))
                    pos += 16000
                return out
            if r < 0.8 and not self.e_is_client:
                # exceed the default MAX_CONCURRENT_STREAMS (100)
                out = b''
                for _ in range(rng.choice([99, 100, 101, 102])):
                    out += wire.build_headers(self.next_sid, hm.encode(REQ_BASE))
                    self.open[self.next_sid] = 'open'
                    self.next_sid += 2
                return out
            # length field without the body: parser must wait
            return wire.raw_frame(rng.choice([0, 1, 4, 6, 0x50]), 0, rng.choice([0, sid]), b'', length=rng.choice(
                [16385, 2 ** 24 - 1, 65536]))
        if m == 20:
            return wire.build_settings([(rng.choice([2, 4, 5, 8]), rng.choice([2, 2 ** 31, 2 ** 32 - 1, 0, 16383, 2 ** 24]))])
        if m == 21:
            # data on a stream the peer already ended / closed
            cands = self._live(('ended', 'closed'))
            s = rng.choice(cands) if cands else sid
            return rng.choice([wire.build_data(s, b'late'), wire.build_headers(s, self._hdr('trailers'), end_stream=True)])
        if m == 22:
            # lower / wrong-parity new stream
            return wire.build_headers(rng.choice([max(1, self.next_sid - 4), self.next_sid + 1, self.next_sid - 1]),
                                      self._hdr('request'), end_stream=True)
        if m == 23:
            return wire.build_headers(sid, bytes(rng.randrange(256) for _ in range(rng.randrange(0, 30))))
        if m == 24:
            return wire.build_window_update(rng.choice([0, sid]), 2 ** 31 - 1)
        return wire.raw_frame(wire.HEADERS, wire.F_END_HEADERS | wire.F_PRIORITY, sid,
                              bytes(rng.randrange(256) for _ in range(rng.choice([0, 4, 5, 6]))))
