"""A tiny HPACK *encoder* (RFC 7541) that emits only what the caller asks for.

No Huffman coding, no static-table lookups unless requested.  Because the
default representation is "literal without indexing - new name" the encoder is
stateless, so a hostile peer can produce any decoded header list (empty names,
upper case, non-UTF-8 bytes, ...) and any malformed block without keeping a
dynamic table.  Decoding in monitors uses a monitor-owned hpack.Decoder.
"""

WITHOUT_INDEXING = 'without'
INCREMENTAL = 'incremental'
NEVER = 'never'


def enc_int(value, prefix_bits, first_byte_flags=0):
    """RFC 7541 section 5.1 integer."""
    limit = (1 << prefix_bits) - 1
    if value < limit:
        return bytes([first_byte_flags | value])
    out = [first_byte_flags | limit]
    value -= limit
    while value >= 128:
        out.append((value & 0x7f) | 0x80)
        value >>= 7
    out.append(value)
    return bytes(out)


def enc_str(s):
    """String literal, H bit = 0."""
    return enc_int(len(s), 7, 0) + s


def literal(name, value, mode=WITHOUT_INDEXING, name_index=0):
    if mode == INCREMENTAL:
        first = enc_int(name_index, 6, 0x40)
    elif mode == NEVER:
        first = enc_int(name_index, 4, 0x10)
    else:
        first = enc_int(name_index, 4, 0x00)
    out = first
    if not name_index:
        out += enc_str(name)
    return out + enc_str(value)


def indexed(index):
    return enc_int(index, 7, 0x80)


def table_size_update(size):
    return enc_int(size, 5, 0x20)


def encode(headers, mode=WITHOUT_INDEXING):
    """Encode a list of (name, value) byte pairs, all with the same representation."""
    return b''.join(literal(n, v, mode) for n, v in headers)


def header_list_size(headers):
    """RFC 7540 section 6.5.2 / RFC 7541 section 4.1 size: name + value + 32 per field."""
    return sum(len(n) + len(v) + 32 for n, v in headers)
