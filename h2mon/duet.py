"""Duet: a real client and a real server joined by two byte pipes.

Every API call goes through the endpoint's Tap; the bytes it produced are
appended to the pipe towards the other endpoint.  deliver() hands an arbitrary
prefix of a pipe to the receiver (any chunk size, any interleaving of the two
directions), whose own output goes into the opposite pipe.
"""
from . import core


class Duet(object):
    def __init__(self, ccfg=None, scfg=None, keep_log=True):
        self.c = core.Tap(core.make_conn(True, **(ccfg or {})), 'C', keep_log=keep_log)
        self.s = core.Tap(core.make_conn(False, **(scfg or {})), 'S', keep_log=keep_log)
        self.pipe = {'c2s': bytearray(), 's2c': bytearray()}
        self.delivered = {'c2s': 0, 's2c': 0}
        self.sent = {'c2s': 0, 's2c': 0}
        self.errors = []          # (side, exception) for receive_data failures

    def tap(self, side):
        return self.c if side == 'c' else self.s

    def out_dir(self, side):
        return 'c2s' if side == 'c' else 's2c'

    def call(self, side, op, *args, **kw):
        res = self.tap(side).call(op, *args, **kw)
        if res.out:
            self.pipe[self.out_dir(side)] += res.out
            self.sent[self.out_dir(side)] += len(res.out)
        return res

    def pending(self, direction):
        return len(self.pipe[direction])

    def deliver(self, direction, n=None):
        """Deliver the first n bytes (default: everything) of a pipe.  Returns the CallResult or None."""
        buf = self.pipe[direction]
        if not buf:
            return None
        if n is None or n > len(buf):
            n = len(buf)
        data = bytes(buf[:n])
        del buf[:n]
        self.delivered[direction] += n
        side = 's' if direction == 'c2s' else 'c'
        res = self.call(side, 'receive_data', data)
        if res.exc is not None:
            self.errors.append((side, res.exc))
        return res

    def settle(self, limit=50):
        """Deliver everything in both directions until quiet.  Returns list of (receiver side, CallResult)."""
        out = []
        for _ in range(limit):
            moved = False
            for d in ('c2s', 's2c'):
                if self.pipe[d]:
                    r = self.deliver(d)
                    out.append(('s' if d == 'c2s' else 'c', r))
                    moved = True
            if not moved:
                break
        return out

    def handshake(self):
        self.call('c', 'initiate_connection')
        self.call('s', 'initiate_connection')
        return self.settle()
