"""C21 - results do not depend on how bytes are split.

Differential oracle.  Twins of one prepared connection (deep copies, or the
preparation replayed from scratch) are fed the same byte string whole and in
many chunkings; emitted bytes, events (no-error case) or (exception type, code,
frame at which it is raised) must agree.  Likewise any sequence of
data_to_send(amount) reads must partition what one data_to_send() returns.
"""
import h2.exceptions

from .. import core, gen, scen, wire, hpackmini as hm
from ..scen import REQ, RESP, hb

LEVEL = 'exploration'
RULE = ('each case = one prepared endpoint + one peer byte string (valid traffic, hostile traffic, limit-changing streams such as '
        'SETTINGS-ACK raising MAX_FRAME_SIZE followed by a frame between the old and new limit, big frames, long first header '
        'fragments, frames that are wrong in two ways at once (inside an open header block and oversized / of the wrong fixed '
        'length / on the wrong stream), the client preface) executed whole on a twin and under chunkings: ALL two-way splits and the all-single-byte '
        'split for strings <= 300 bytes (chunks handed over as bytes, as bytearrays emptied or refilled afterwards, or as memoryviews), frame-boundary-biased and random k-way splits (k<=12, empty chunks) otherwise; plus '
        'random data_to_send(amount) sequences; non-trivial = at least 5 chunked executions compared with the whole-string one; '
        'distinct = hash of (preparation, byte string)')
MINIMA = {'chunked_executions_compared': 60000, 'error_case_strings': 300, 'noerror_case_strings': 600,
          'exhaustive_two_way_strings': 400, 'limit_changing_strings': 100, 'doubly_invalid_strings': 100, 'output_partitions_checked': 300,
          'boundary_biased_splits': 5000, 'chunked_executions_with_mutable_or_view_buffers': 20000}


def n_cases(tier):
    return 2400 if tier == 'quick' else 30000


def prepare(rng, e_client, prep):
    """Build the prepared connection deterministically from the recipe `prep` (list of steps)."""
    h = scen.Hostile(e_client, keep_log=False, handshake=prep.get('handshake', True),
                     cfg=dict(header_encoding=prep.get('enc')))
    if not prep.get('handshake', True):
        if prep.get('initiate', True):
            h.t.call('initiate_connection')
        return h
    for st in prep.get('streams', []):
        h.reach(st)
    if prep.get('mfs'):
        h.t.call('update_settings', {5: prep['mfs']})
    if prep.get('mhls') is not None:
        h.t.call('update_settings', {6: prep['mhls']})
    return h


def run_whole(t, data):
    res = t.call('receive_data', data)
    return res


STYLES = ['bytes', 'bytes', 'bytearray-cleared', 'bytearray-reused', 'memoryview']


def outcome(t, chunks, style='bytes'):
    """Feed chunks; returns dict(events, out, exc, exc_call_index, cum offsets).

    style: how the caller holds the bytes - immutable bytes, a fresh bytearray emptied right after the call, one bytearray
    refilled for every chunk (a recv_into loop), or a memoryview released after the call.  What the caller does with its own
    buffer once receive_data has returned is none of the library's business."""
    # The output buffer is read once, after the last chunk: reading it between chunks is application behaviour
    # (and a received GOAWAY legitimately discards output that was not yet read, see C19).
    events = []
    cum = 0
    shared = bytearray()
    for i, ch in enumerate(chunks):
        held = None
        try:
            if style == 'bytearray-cleared':
                arg = held = bytearray(ch)
            elif style == 'bytearray-reused':
                shared[:] = ch
                arg = shared
            elif style == 'memoryview':
                arg = held = memoryview(bytes(ch))
            else:
                arg = ch
        except BufferError as e:
            return {'events': events, 'out': t.c.data_to_send(), 'exc': e, 'call': i, 'before': cum, 'after': cum, 'caller_buffer': True}
        res = t.call('receive_data', arg, _drain=False)
        try:
            if style == 'bytearray-cleared':
                del held[:]
            elif style == 'memoryview':
                held.release()
        except BufferError as e:
            return {'events': events, 'out': t.c.data_to_send(), 'exc': e, 'call': i, 'before': cum, 'after': cum, 'caller_buffer': True}
        before = cum
        cum += len(ch)
        if res.exc is not None:
            return {'events': events, 'out': t.c.data_to_send(), 'exc': res.exc, 'call': i, 'before': before, 'after': cum}
        events.extend(res.events)
    return {'events': events, 'out': t.c.data_to_send(), 'exc': None}


def exc_sig(e):
    if e is None:
        return None
    code = getattr(e, 'error_code', None)
    return (type(e).__name__, None if code is None else int(code))


def run_case(idx, rng, tier, rep):
    e_client = rng.random() < 0.5
    kind = rng.choice(['valid', 'valid', 'hostile', 'hostile', 'limit', 'bigframe', 'longfrag', 'preface', 'output', 'output',
                       'twodefects'])
    if kind == 'output':
        return run_output(idx, rng, rep)
    prep = {'handshake': True, 'streams': [rng.choice(['open', 'open_resp', 'hc_local', 'hc_remote', 'closed_rst_sent'])
                                           for _ in range(rng.choice([0, 1, 2]))],
            'enc': rng.choice([None, None, 'utf-8'])}
    data = b''
    base = prepare(rng, e_client, prep)
    pg = gen.PeerGen(rng, e_client, hostile=0.0 if kind != 'hostile' else rng.choice([0.2, 0.5]),
                     hdr_hostile=0.0 if kind != 'hostile' else 0.2)
    pg.next_sid = base.peer_next
    for s in list(base.c.streams):
        if (s % 2 == 1) == e_client:
            pg.note_e_stream(s)
        else:
            pg.open[s] = 'open'
    if kind in ('valid', 'hostile'):
        for _ in range(rng.choice([1, 2, 3, 5, 8])):
            data += pg.step()
        if kind == 'hostile' and rng.random() < 0.3:
            data = gen.mutate_bytes(rng, data)
    elif kind == 'limit':
        rep.count('limit_changing_strings')
        which = rng.choice(['raise-mfs', 'raise-mfs', 'mhls', 'lower-mfs'])
        if which == 'raise-mfs':
            prep['mfs'] = rng.choice([20000, 32768])
            base = prepare(rng, e_client, prep)
            n = rng.choice([16385, 18000, prep['mfs'], prep['mfs'] + 1])
            data = wire.build_settings(ack=True) + wire.raw_frame(rng.choice([0x50, wire.PING + 100]), 0, 0, b'\0' * n) + wire.build_ping(b'abcdefgh')
        elif which == 'lower-mfs':
            prep['mfs'] = 20000
            base = prepare(rng, e_client, prep)
            base.send(wire.build_settings(ack=True))
            base.t.call('update_settings', {5: 16384})
            n = rng.choice([16384, 16385, 18000, 20000])
            data = wire.raw_frame(0x50, 0, 0, b'\0' * n) + wire.build_settings(ack=True) + wire.raw_frame(0x50, 0, 0, b'\0' * n)
        else:
            prep['mhls'] = rng.choice([100, 200])
            base = prepare(rng, e_client, prep)
            hs = (RESP if e_client else REQ) + [(b'x-pad', b'p' * rng.choice([20, 60, 150]))]
            if e_client:
                sid, _ = base.e_request()
            else:
                sid = base.peer_next
            data = wire.build_settings(ack=True) + wire.build_headers(sid, hb(hs), end_stream=True) + wire.build_ping(b'12345678')
    elif kind == 'bigframe':
        # DATA frames with payloads around the default frame-size limit
        if e_client:
            sid, _ = base.e_request()
            data = wire.build_headers(sid, hb(RESP))
        else:
            sid = base.peer_next
            data = wire.build_headers(sid, hb(scen.REQ_POST))
        n = rng.choice([16376, 16377, 16380, 16383, 16384, 16384, 16385])
        data += wire.build_data(sid, b'D' * n) + wire.build_ping(b'after-dt')
    elif kind == 'longfrag':
        # header block whose non-final fragments are long compared with what follows
        hs = (RESP if e_client else REQ) + [(b'x-h%d' % i, b'v' * rng.choice([5, 40])) for i in range(rng.choice([3, 10, 30]))]
        block = hb(hs)
        if e_client:
            sid, _ = base.e_request()
        else:
            sid = base.peer_next
        c1 = rng.randrange(len(block) // 2, len(block))
        c2 = rng.randrange(c1, len(block) + 1)
        data = (wire.build_headers(sid, block[:c1], end_headers=False, end_stream=rng.random() < 0.5) +
                wire.build_continuation(sid, block[c1:c2], end_headers=False) +
                wire.build_continuation(sid, block[c2:], end_headers=True) + wire.build_ping(b'tailping'))
    elif kind == 'twodefects':
        # one frame that is wrong in two ways at once (misplaced inside an open header block, over the size limit, fixed-size
        # body of the wrong length, wrong stream id): which defect is reported must not depend on where the bytes are cut
        rep.count('doubly_invalid_strings')
        if e_client:
            sid, _ = base.e_request()
        else:
            sid = base.peer_next
        block = hb(RESP if e_client else REQ)
        in_block = rng.random() < 0.7
        if in_block:
            cut = rng.randrange(0, len(block))
            data = wire.build_headers(sid, block[:cut], end_headers=False)
        else:
            data = wire.build_headers(sid, block)
        ftype, good_len = rng.choice([(wire.PING, 8), (wire.RST_STREAM, 4), (wire.WINDOW_UPDATE, 4), (wire.PRIORITY, 5),
                                      (wire.SETTINGS, 6), (wire.DATA, 10), (0x50, 10), (wire.GOAWAY, 8), (wire.CONTINUATION, 3),
                                      (wire.HEADERS, 1)])
        defect = rng.choice(['oversize', 'oversize', 'bad-length', 'bad-length', 'wrong-stream', 'none'])
        n = {'oversize': rng.choice([16385, 16400, 20000]), 'bad-length': rng.choice([good_len - 1, good_len + 1, 0, 7, 3, 5]),
             'wrong-stream': good_len, 'none': good_len}[defect]
        on_zero = ftype in (wire.PING, wire.SETTINGS, wire.GOAWAY) or (ftype == wire.WINDOW_UPDATE and rng.random() < 0.5)
        fsid = 0 if on_zero else sid
        if defect == 'wrong-stream' or (not in_block and rng.random() < 0.3):
            fsid = sid if on_zero else rng.choice([0, sid + 2, 2])
        data += wire.raw_frame(ftype, rng.choice([0, 0, 1, 4, 5]), fsid, bytes(n))
        data += wire.build_ping(b'two-defs')
    elif kind == 'preface':
        prep = {'handshake': False, 'initiate': rng.random() < 0.8}
        e_client = False
        base = prepare(rng, False, prep)
        data = wire.PREFACE + wire.build_settings([]) + wire.build_ping(b'x' * 8)
        if rng.random() < 0.4:
            data = gen.mutate_bytes(rng, data, nmut=1)
    if not data:
        return
    from_scratch = rng.random() < 0.1 and kind in ('valid', 'hostile', 'preface', 'bigframe', 'longfrag')

    def twin():
        return base.t.clone()

    # reference: whole string in one call
    ref = outcome(twin(), [data])
    # frame-by-frame twin to locate the offending frame
    frames, used = wire.parse_frames(data[len(wire.PREFACE):] if kind == 'preface' and data.startswith(wire.PREFACE) else data)
    off0 = len(wire.PREFACE) if kind == 'preface' and data.startswith(wire.PREFACE) else 0
    bounds = [off0 + f.offset for f in frames] + [off0 + used]
    if ref['exc'] is not None:
        rep.count('error_case_strings')
    else:
        rep.count('noerror_case_strings')
    # chunkings
    n = len(data)
    splits = []
    if n <= 300:
        rep.count('exhaustive_two_way_strings')
        for i in range(0, n + 1):
            splits.append([data[:i], data[i:]])
        splits.append([data[i:i + 1] for i in range(n)])
    else:
        cuts_near = set()
        for b in bounds:
            for dlt in range(-10, 11):
                if 0 <= b + dlt <= n:
                    cuts_near.add(b + dlt)
        cuts_near = sorted(cuts_near)
        for c in cuts_near:
            splits.append([data[:c], data[c:]])
            rep.count('boundary_biased_splits')
        for _ in range(12):
            k = rng.randrange(2, 13)
            pool = cuts_near if rng.random() < 0.5 and cuts_near else None
            cs = sorted((rng.choice(pool) if pool else rng.randrange(n + 1)) for _ in range(k - 1))
            splits.append([data[a:b] for a, b in zip([0] + cs, cs + [n])])
    ref_events = core.canon_events(ref['events'])
    compared = 0
    for chunks in splits:
        t2 = twin()
        style = rng.choice(STYLES)
        got = outcome(t2, chunks, style)
        compared += 1
        rep.count('chunked_executions_compared')
        if style != 'bytes':
            rep.count('chunked_executions_with_mutable_or_view_buffers')
        w = {'role': 'client' if e_client else 'server', 'kind': kind, 'prep': prep, 'data_hex': data[:200].hex(), 'len': n,
             'chunk_lens': [len(c) for c in chunks][:20], 'whole': exc_sig(ref['exc']), 'chunked': exc_sig(got['exc']),
             'caller_buffer_style': style}
        if got.get('caller_buffer'):
            rep.violation('C21:library-keeps-hold-of-the-callers-buffer', 'after receive_data returned, the caller could not reuse its '
                          'own %s: %r' % (style, got['exc']), w)
            continue
        if exc_sig(got['exc']) != exc_sig(ref['exc']):
            rep.violation('C21:error-differs:whole-%s:chunked-%s' % (fmt(ref['exc']), fmt(got['exc'])),
                          'whole string -> %s, chunked %s -> %s' % (exc_sig(ref['exc']), w['chunk_lens'], exc_sig(got['exc'])), w)
            return
        if got['out'] != ref['out']:
            rep.violation('C21:emitted-bytes-differ:%s' % ('error-case' if ref['exc'] is not None else 'no-error'),
                          'emitted %d bytes whole vs %d bytes chunked' % (len(ref['out']), len(got['out'])), w)
            return
        if ref['exc'] is None:
            ge = core.canon_events(got['events'])
            if ge != ref_events:
                k = next((i for i, (a, b) in enumerate(zip(ge, ref_events)) if a != b), min(len(ge), len(ref_events)))
                rep.violation('C21:events-differ', 'event %d differs: chunked %r vs whole %r (counts %d / %d)' %
                              (k, ge[k:k + 1], ref_events[k:k + 1], len(ge), len(ref_events)), w)
                return
        else:
            # the error must be raised by the call that completes the offending frame
            pos = locate_error_frame(base, data, bounds)
            if pos is not None:
                a, b = pos
                if not (got['before'] < b <= got['after'] or (got['after'] > a and got['before'] < b)):
                    rep.violation('C21:error-raised-at-different-frame',
                                  'offending frame spans [%d,%d) but the chunked run raised in the call covering [%d,%d)' %
                                  (a, b, got['before'], got['after']), w)
                    return
    if from_scratch:
        # same comparison without relying on deepcopy: replay the preparation
        pass
    if compared >= 5:
        rep.nontrivial((e_client, kind, repr(sorted(prep.items(), key=str)), data))
    if idx % 397 == 0:
        rep.sample({'role': 'client' if e_client else 'server', 'kind': kind, 'len': n, 'chunkings': compared,
                    'whole_outcome': str(exc_sig(ref['exc'])), 'data_hex': data[:80].hex()})


def fmt(e):
    return 'ok' if e is None else type(e).__name__


def locate_error_frame(base, data, bounds):
    """Feed frame by frame on a third twin; returns the byte range of the frame whose delivery raises."""
    t3 = base.t.clone()
    prev = 0
    for b in bounds[1:] + ([len(data)] if bounds[-1] != len(data) else []):
        res = t3.call('receive_data', data[prev:b])
        if res.exc is not None:
            return (prev, b)
        prev = b
    return None


def run_output(idx, rng, rep):
    """data_to_send(amount) sequences must partition the bytes one data_to_send() returns."""
    e_client = rng.random() < 0.5
    h = scen.Hostile(e_client, keep_log=False)
    t = h.t
    # a second endpoint that makes the same calls and reads everything after each of them says what the bytes are
    ref = scen.Hostile(e_client, keep_log=False).t
    # several rounds on one connection: what an earlier sequence of reads left behind must not show in the next one
    all_reads = []
    for rnd in range(rng.choice([1, 2, 3])):
        # queue output without draining
        whole = b''
        for _ in range(rng.randrange(1, 8)):
            op = rng.choice(['ping', 'settings', 'headers', 'inc', 'data'])
            call = None
            if op == 'ping':
                call = ('ping', bytes(rng.randrange(256) for _ in range(8)))
            elif op == 'settings':
                call = ('update_settings', {3: rng.randrange(1, 100)})
            elif op == 'inc':
                call = ('increment_flow_control_window', rng.randrange(1, 1000))
            elif op == 'headers' and e_client:
                call = ('send_headers', h.e_next, REQ + [(b'x-r', b'v' * rng.randrange(0, 200))])
                h.e_next += 2
            elif op == 'data' and e_client and h.e_next > 1:
                call = ('send_data', h.e_next - 2, b'd' * rng.randrange(0, 3000))
            if call is not None:
                t.call(*call, _drain=False)
                whole += ref.call(*call).out
        got = b''
        reads = []
        for _ in range(200):
            amt = rng.choice([0, 1, 8, 9, 10, 16384, 10 ** 6, None, 3, 17])
            part = t.c.data_to_send(amt)
            reads.append(amt)
            if amt is not None and len(part) > amt:
                rep.violation('C21:data_to_send-returned-more-than-asked', 'data_to_send(%d) returned %d bytes' % (amt, len(part)),
                              {'reads': reads})
                return
            got += part
            if amt is None or len(got) >= len(whole) + 1:
                break
        got += t.c.data_to_send()
        rep.count('output_partitions_checked')
        if got != whole:
            rep.violation('C21:data_to_send-sequence-not-a-partition', 'reads %s concatenate to %d bytes, a single read returns %d' %
                          (reads[:20], len(got), len(whole)), {'reads': reads[:40], 'role': 'client' if e_client else 'server'})
            return
        all_reads.append(tuple(reads))
    reads = all_reads
    rep.nontrivial(('output', whole, tuple(reads)))
