"""C18 - every connection error emits exactly one GOAWAY with the RFC-mandated code.

Two layers.
 * catalogue (fault enumeration): violations *constructed* so that their RFC class is
   known by construction, injected after a valid prefix that reaches a chosen stream
   state, for both roles.  If receive_data raises, the exception code and the GOAWAY
   code must be in the class's allowed set.
 * universal: hostile random traffic delivered frame by frame; on every raise exactly
   one GOAWAY, last frame of the call's output, code == exception code,
   last-stream-id == highest peer-opened stream id.
"""
import h2.exceptions

from .. import core, gen, scen, wire, hpackmini as hm
from ..scen import REQ, RESP, INFO, hb

LEVEL = 'fault_enumeration'
RULE = ('catalogue of constructed violation kinds x stream states x role (exhaustive every run), then random hostile '
        'traffic delivered one frame per receive_data call; for the window-violation kinds (DATA overrunning a stream or the connection '
        'window, padded or not; window and INITIAL_WINDOW_SIZE overflows, also of promised streams) silence is a violation too: the '
        'category has to surface as the connection error or as RST_STREAM(FLOW_CONTROL_ERROR); non-trivial = receive_data raised ProtocolError at least '
        'once and the GOAWAY oracle was evaluated; distinct = (layer, kind, state, role) for the catalogue, hash of '
        'delivered bytes for random cases')
MINIMA = {'goaway_oracle_evaluated': 300, 'catalogue_raised': 200, 'lastid_nonzero_checked': 30}
EXHAUSTIVE = {}

FS, FC, SC, CE, EYC, PE, RS = (wire.FRAME_SIZE_ERROR, wire.FLOW_CONTROL_ERROR, wire.STREAM_CLOSED,
                               wire.COMPRESSION_ERROR, wire.ENHANCE_YOUR_CALM, wire.PROTOCOL_ERROR,
                               wire.REFUSED_STREAM)

STATES = ['fresh', 'open', 'open_resp', 'hc_remote', 'hc_local', 'closed_es', 'closed_es_cleaned',
          'closed_rst_sent', 'closed_rst_recv', 'pushed_closed_es', 'pushed_closed_es_cleaned']


# violation classes that the unchanged library always answers and that no reading of the RFC lets pass in silence
MUST_SURFACE = ('data-overruns-stream-window', 'padded-data-overruns-stream-window', 'data-overruns-connection-window',
                'window-update-conn-overflow', 'settings-iws-2^31', 'settings-iws-2^32-1',
                'settings-iws-delta-overflows-stream-window', 'settings-iws-delta-overflows-reserved-stream-window')
# ... and classes that are connection errors whatever else is going on: no reaction at all, or a reaction on the stream only, is a
# violation as well
MUST_RAISE = ('data-on-idle-stream-below-other-sides-ids', 'rst-on-idle-stream-below-other-sides-ids',
              'window-update-on-idle-stream-below-other-sides-ids')


class GoawayMonitor(object):
    """Universal C18 oracle over (delivered frames, CallResult) pairs."""

    def __init__(self, e_client):
        self.e_client = e_client
        self.W = 0                 # highest peer-opened stream id E has reported
        self.R = 0                 # highest promised stream id E refused with RST_STREAM(REFUSED_STREAM)
        self.closed = False        # connection already closed (earlier raise / GOAWAY delivered)
        self.in_parser = wire.StreamParser(expect_preface=not e_client)

    def note_events(self, events):
        for e in events:
            n = type(e).__name__
            if n == 'RequestReceived':   # (a client reporting one is C07's finding; here it just moves the watermark)
                self.W = max(self.W, e.stream_id)
            elif n == 'PushedStreamReceived':
                self.W = max(self.W, e.pushed_stream_id)

    def note_refusals(self, out_frames, rep):
        # A PUSH_PROMISE on a stream E has reset is answered with RST_STREAM(REFUSED_STREAM) on the
        # promised stream and no event.  The peer did reserve that stream (RFC 7540 section 5.1.1 counts
        # reserved ids as used), E took no action on it beyond refusing it: both the refused id and the
        # event watermark are legitimate last-stream-id values from then on (RFC 7540 section 6.8).
        if not self.e_client:
            return
        for f in out_frames:
            if (f.type == wire.RST_STREAM and not f.defects and f.error_code == RS
                    and f.stream_id % 2 == 0 and f.stream_id > max(self.W, self.R)):
                self.R = f.stream_id
                rep.count('refused_promise_tracked')

    def check(self, data, res, rep, prefix='C18'):
        """Returns list of (key, description) problems for this call."""
        frames = self.in_parser.feed(data)
        probs = []
        was_closed = self.closed
        if not was_closed:
            self.note_refusals(res.frames, rep)
        if res.exc is None:
            self.note_events(res.events)
            if any(f.type == wire.GOAWAY and not f.defects for f in frames):
                self.closed = True
            return probs
        self.closed = True
        if not isinstance(res.exc, h2.exceptions.ProtocolError):
            return probs               # C17's business
        rep.count('goaway_oracle_evaluated')
        goaways = [f for f in res.frames if f.type == wire.GOAWAY]
        if self.in_parser.preface_bad:
            rep.count('bad_preface_exempt')
            if len(goaways) > 1:
                probs.append((prefix + ':goaway-count-%d-bad-preface' % len(goaways), 'more than one GOAWAY after bad preface'))
            return probs
        if len(goaways) != 1:
            probs.append((prefix + ':goaway-count-%d:%s' % (min(len(goaways), 2), core.exc_key(res.exc)),
                          '%d GOAWAY frames emitted for one raising receive_data (%s)' % (len(goaways), core.exc_key(res.exc))))
            return probs
        g = goaways[0]
        if res.frames[-1] is not g:
            probs.append((prefix + ':goaway-not-last', 'frames emitted after the GOAWAY: %s' % res.frames[-1].name))
        if g.defects:
            probs.append((prefix + ':goaway-malformed', 'GOAWAY defects %s' % g.defects))
        code = getattr(res.exc, 'error_code', None)
        if code is None or int(code) != g.error_code:
            probs.append((prefix + ':goaway-code-differs-from-exception:%s' % type(res.exc).__name__,
                          'GOAWAY code %s but exception %s carries %r' % (g.error_code, type(res.exc).__name__, code)))
        # last-stream-id
        allowed = {self.W}
        if self.R > self.W:
            allowed.add(self.R)
            rep.count('lastid_checked_after_refused_promise')
        # on an already closed connection no frame can open a stream any more: only W is acceptable
        for f in ([] if was_closed else frames):
            if f.type in (wire.HEADERS, wire.CONTINUATION) and not self.e_client:
                if f.stream_id % 2 == 1 and f.stream_id > self.W:
                    allowed.add(f.stream_id)
            elif f.type == wire.HEADERS and self.e_client and f.stream_id % 2 == 0 and f.stream_id > self.W:
                # a server "opening" an even stream with HEADERS: the offending frame is itself the
                # (illegal) stream-opening frame, its id is accepted as the watermark
                allowed.add(f.stream_id)
            elif f.type in (wire.PUSH_PROMISE, wire.CONTINUATION) and self.e_client:
                if f.type == wire.PUSH_PROMISE and f.promised_id is not None and f.promised_id > self.W:
                    allowed.add(f.promised_id)
                    self._pending_promised = f.promised_id
                elif f.type == wire.CONTINUATION and getattr(self, '_pending_promised', None):
                    allowed.add(self._pending_promised)
        if g.last_stream_id not in allowed:
            probs.append((prefix + ':goaway-last-stream-id', 'GOAWAY last_stream_id=%s, highest peer-opened id is %s (allowed %s)'
                          % (g.last_stream_id, self.W, sorted(allowed))))
        else:
            if was_closed:
                rep.count('lastid_checked_on_closed_connection')
            if self.W:
                rep.count('lastid_nonzero_checked')
            # E counted the offending stream-opening frame as opened: follow it (it was in the allowed set)
            self.W = max(self.W, g.last_stream_id)
        return probs


# ---------------------------------------------------------------------------
# catalogue.  Each entry: name -> (function(h, sid, state) -> bytes | None, allowed codes)

def _need_stream(sid):
    return sid is not None


BIG = 16385


def cat():
    C = {}

    def add(name, codes, fn, roles=(True, False), group=None):
        if group is None:
            group = 'hpack-undecodable-block' if name.startswith('hpack-') else name
        C[name] = (fn, set(codes), roles, group)

    any_sid = lambda h, sid: sid if sid is not None else (h.e_next if h.e_client else h.peer_next)
    # ---- FRAME_SIZE_ERROR
    add('oversize-data', [FS], lambda h, sid, st: wire.build_data(any_sid(h, sid), b'\0' * BIG))
    add('oversize-unknown', [FS], lambda h, sid, st: wire.raw_frame(0x50, 0, 0, b'\0' * BIG))
    add('oversize-headers', [FS], lambda h, sid, st: wire.build_headers(any_sid(h, sid), b'\0' * BIG))
    add('oversize-settings', [FS], lambda h, sid, st: wire.raw_frame(wire.SETTINGS, 0, 0, b'\0\x10\0\0\0\0' * 2731))
    add('ping-len-7', [FS], lambda h, sid, st: wire.raw_frame(wire.PING, 0, 0, b'\0' * 7))
    add('ping-len-9', [FS], lambda h, sid, st: wire.raw_frame(wire.PING, 0, 0, b'\0' * 9))
    add('ping-len-0', [FS], lambda h, sid, st: wire.raw_frame(wire.PING, 0, 0, b''))
    add('rst-len-3', [FS], lambda h, sid, st: wire.raw_frame(wire.RST_STREAM, 0, any_sid(h, sid), b'\0' * 3))
    add('rst-len-5', [FS], lambda h, sid, st: wire.raw_frame(wire.RST_STREAM, 0, any_sid(h, sid), b'\0' * 5))
    add('priority-len-4', [FS], lambda h, sid, st: wire.raw_frame(wire.PRIORITY, 0, any_sid(h, sid), b'\0' * 4))
    add('priority-len-6', [FS], lambda h, sid, st: wire.raw_frame(wire.PRIORITY, 0, any_sid(h, sid), b'\0' * 6))
    add('window-update-len-3', [FS], lambda h, sid, st: wire.raw_frame(wire.WINDOW_UPDATE, 0, 0, b'\0\0\1'))
    add('window-update-len-5', [FS], lambda h, sid, st: wire.raw_frame(wire.WINDOW_UPDATE, 0, 0, b'\0\0\0\1\0'))
    add('settings-len-5', [FS], lambda h, sid, st: wire.raw_frame(wire.SETTINGS, 0, 0, b'\0\x03\0\0\0'))
    add('settings-len-7', [FS], lambda h, sid, st: wire.raw_frame(wire.SETTINGS, 0, 0, b'\0\x03\0\0\0\1\0'))
    add('settings-ack-with-payload', [FS], lambda h, sid, st: wire.raw_frame(wire.SETTINGS, wire.F_ACK, 0, b'\0\x03\0\0\0\1'))
    add('goaway-len-7', [FS], lambda h, sid, st: wire.raw_frame(wire.GOAWAY, 0, 0, b'\0' * 7))

    def raised_mfs(h, sid, st):
        assert h.t.call('update_settings', {5: 20000}).ok
        assert h.send(wire.build_settings(ack=True)).ok
        return wire.raw_frame(0x50, 0, 0, b'\0' * 20001)
    add('oversize-after-raised-limit', [FS], raised_mfs)

    # ---- FLOW_CONTROL_ERROR
    def stream_overrun(h, sid, st):
        if st not in (('open_resp',) if h.e_client else ('open', 'open_resp', 'hc_local')):
            return None           # (client: DATA before response headers is a different violation)
        w = h.c.remote_flow_control_window(sid)
        if w >= 16384:
            return None
        return wire.build_data(sid, b'\0' * (w + 1))
    add('data-overruns-stream-window', [FC], stream_overrun)

    def padded_stream_overrun(h, sid, st):
        # the payload alone fits the stream window; payload + Pad Length octet + padding is one octet too many
        if st not in (('open_resp',) if h.e_client else ('open', 'open_resp', 'hc_local')):
            return None
        w = h.c.remote_flow_control_window(sid)
        if w >= 16384 or w < 1:
            return None
        n = max(0, w - 10)
        return wire.build_data(sid, b'\0' * n, pad=w - n)
    add('padded-data-overruns-stream-window', [FC], padded_stream_overrun, group='data-overruns-stream-window')

    def conn_overrun(h, sid, st):
        if st not in (('open_resp',) if h.e_client else ('open', 'open_resp', 'hc_local')):
            return None
        # stream windows were raised (e_settings IWS) so only the connection window (65535) limits
        if h.c.local_settings.initial_window_size < 2 ** 17:
            return None
        for _ in range(3):
            assert h.send(wire.build_data(sid, b'\0' * 16384)).ok
        assert h.send(wire.build_data(sid, b'\0' * 16383)).ok
        return wire.build_data(sid, b'\0')
    add('data-overruns-connection-window', [FC], conn_overrun)
    add('window-update-conn-overflow', [FC], lambda h, sid, st: wire.build_window_update(0, 2 ** 31 - 1))
    add('settings-iws-2^31', [FC], lambda h, sid, st: wire.build_settings([(4, 2 ** 31)]))
    add('settings-iws-2^32-1', [FC], lambda h, sid, st: wire.build_settings([(4, 2 ** 32 - 1)]))

    def iws_delta_overflow(h, sid, st):
        if st not in ('open', 'open_resp', 'hc_remote'):
            return None
        lw = h.c.streams[sid].outbound_flow_control_window if sid in h.c.streams else None
        if lw is None:
            return None
        r = h.send(wire.build_window_update(sid, 2 ** 31 - 1 - lw))
        if not r.ok:
            return None
        return wire.build_settings([(4, h.c.remote_settings.initial_window_size + 1)])
    add('settings-iws-delta-overflows-stream-window', [FC], iws_delta_overflow)

    def iws_delta_overflow_reserved(h, sid, st):
        # the stream whose window would overflow is one the server has promised and not yet started
        if st not in ('open', 'open_resp', 'hc_remote') or h.e_client:
            return None
        pid = h.e_next
        if not h.t.call('push_stream', sid, pid, REQ).ok:
            return None
        h.e_next += 2
        lw = h.c.streams[pid].outbound_flow_control_window
        if not h.send(wire.build_window_update(pid, 2 ** 31 - 1 - lw)).ok:
            return None
        return wire.build_settings([(4, h.c.remote_settings.initial_window_size + 1)])
    add('settings-iws-delta-overflows-reserved-stream-window', [FC], iws_delta_overflow_reserved, roles=(False,),
        group='settings-iws-delta-overflows-stream-window')

    # ---- STREAM_CLOSED
    def on_closed_es(build):
        def fn(h, sid, st):
            if st not in ('closed_es', 'closed_es_cleaned', 'pushed_closed_es', 'pushed_closed_es_cleaned') or sid is None:
                return None
            return build(h, sid)
        return fn
    add('data-after-end-stream', [SC], on_closed_es(lambda h, sid: wire.build_data(sid, b'late')))
    add('headers-after-end-stream', [SC], on_closed_es(
        lambda h, sid: wire.build_headers(sid, hb(RESP if h.e_client else REQ), end_stream=True)))
    add('data-es-after-end-stream', [SC], on_closed_es(lambda h, sid: wire.build_data(sid, b'', end_stream=True)))

    # ---- COMPRESSION_ERROR
    def bad_block(block):
        def fn(h, sid, st):
            if h.e_client:
                if st not in ('open', 'hc_local'):
                    return None
                return wire.build_headers(sid, block)
            nsid = h.peer_next
            return wire.build_headers(nsid, block)
        return fn
    add('hpack-index-0', [CE], bad_block(b'\x80'))
    add('hpack-index-out-of-range', [CE], bad_block(hm.indexed(200)))
    add('hpack-truncated-literal', [CE], bad_block(hm.literal(b'x-abc', b'value')[:-3]))
    add('hpack-truncated-name-length', [CE], bad_block(b'\x00\x7f'))
    add('hpack-bad-huffman-eos', [CE], bad_block(b'\x00\x84\xff\xff\xff\xff\x01v'))
    add('hpack-size-update-above-limit', [CE], bad_block(hm.table_size_update(65536) + hb(REQ)))
    add('hpack-size-update-mid-block', [CE], bad_block(hm.literal(b'x-a', b'1') + hm.table_size_update(100)))
    add('hpack-name-index-out-of-range', [CE], bad_block(hm.literal(b'', b'v', hm.INCREMENTAL, name_index=99)))
    add('hpack-oversize-integer', [CE], bad_block(b'\xff' + b'\xff' * 10 + b'\x01'))

    # ---- ENHANCE_YOUR_CALM
    def big_list(h, sid, st):
        blk = hm.encode((REQ if not h.e_client else RESP) + [(b'x-big', b'v' * 8000)] * 9)
        if h.e_client:
            if st not in ('open', 'hc_local'):
                return None
            tsid = sid
        else:
            tsid = h.peer_next
        out = wire.build_headers(tsid, blk[:16000], end_headers=False)
        pos = 16000
        while pos < len(blk):
            out += wire.build_continuation(tsid, blk[pos:pos + 16000], end_headers=(pos + 16000 >= len(blk)))
            pos += 16000
        return out
    add('header-list-above-default-limit', [EYC], big_list)

    def small_mhls(h, sid, st):
        assert h.t.call('update_settings', {6: 100}).ok
        assert h.send(wire.build_settings(ack=True)).ok
        hs = (REQ if not h.e_client else RESP) + [(b'x-pad', b'p' * 60)]
        if h.e_client:
            if st not in ('open', 'hc_local'):
                return None
            return wire.build_headers(sid, hb(hs))
        return wire.build_headers(h.peer_next, hb(hs))
    add('header-list-above-acknowledged-limit', [EYC], small_mhls)

    # ---- PROTOCOL_ERROR
    add('data-on-stream-0', [PE], lambda h, sid, st: wire.build_data(0, b'x'))
    add('headers-on-stream-0', [PE], lambda h, sid, st: wire.build_headers(0, hb(REQ)))
    add('rst-on-stream-0', [PE], lambda h, sid, st: wire.build_rst(0, 0))
    add('priority-on-stream-0', [PE], lambda h, sid, st: wire.build_priority(0, 1))
    add('continuation-on-stream-0', [PE], lambda h, sid, st: wire.build_continuation(0, b''))
    add('settings-on-stream', [PE], lambda h, sid, st: wire.build_settings([], sid=any_sid(h, sid)))
    add('ping-on-stream', [PE], lambda h, sid, st: wire.build_ping(sid=any_sid(h, sid)))
    add('goaway-on-stream', [PE], lambda h, sid, st: wire.build_goaway(sid=any_sid(h, sid)))
    add('data-on-idle-stream', [PE], lambda h, sid, st: wire.build_data(h.peer_next + 10 if not h.e_client else h.e_next + 10, b'x'))
    add('new-stream-wrong-parity', [PE], lambda h, sid, st: wire.build_headers(h.peer_next + 1, hb(REQ)), roles=(False,))

    def idle_below_the_other_side(build):
        # an id that its owner never used although the other side's ids are already far beyond it: still idle (RFC 7540 5.1.1
        # counts each side's identifiers separately), so DATA / RST_STREAM / WINDOW_UPDATE on it are connection errors
        def fn(h, sid, st):
            for _ in range(3):
                if h.e_client:
                    if not h.e_request(end_stream=True)[1].ok:
                        return None
                else:
                    if not h.peer_request(end_stream=True)[1].ok:
                        return None
            if h.e_client:
                # E (a client) has used odd ids up to e_next-2; the peer has promised nothing above its own peer_next-2
                idle = h.peer_next + 2 if h.peer_next + 2 < h.e_next else None
            else:
                idle = h.e_next + 2 if h.e_next + 2 < h.peer_next else None
            if idle is None:
                return None
            return build(idle)
        return fn
    add('data-on-idle-stream-below-other-sides-ids', [PE], idle_below_the_other_side(lambda i: wire.build_data(i, b'x')), group='data-on-idle-stream')
    add('rst-on-idle-stream-below-other-sides-ids', [PE], idle_below_the_other_side(lambda i: wire.build_rst(i, 8)), group='rst-on-idle-stream')
    add('window-update-on-idle-stream-below-other-sides-ids', [PE], idle_below_the_other_side(lambda i: wire.build_window_update(i, 10)),
        group='window-update-on-idle-stream')

    def implicit_closed(h, sid, st):
        a = h.peer_next
        assert h.send(wire.build_headers(a + 2, hb(REQ))).ok
        h.peer_next += 4
        return wire.build_headers(a, hb(REQ))
    add('new-stream-id-not-increasing', [PE], implicit_closed, roles=(False,))

    def interleave(other):
        def fn(h, sid, st):
            tsid = h.peer_next if not h.e_client else sid
            if h.e_client and st not in ('open', 'hc_local'):
                return None
            return wire.build_headers(tsid, hb(REQ if not h.e_client else RESP), end_headers=False) + other(h, tsid)
        return fn
    add('ping-inside-header-block', [PE], interleave(lambda h, s: wire.build_ping()))
    add('data-inside-header-block', [PE], interleave(lambda h, s: wire.build_data(s, b'x')))
    add('continuation-other-stream-inside-header-block', [PE], interleave(lambda h, s: wire.build_continuation(s + 2, b'')))
    add('headers-inside-header-block', [PE], interleave(lambda h, s: wire.build_headers(s, hb(REQ))))

    def naked_cont(h, sid, st):
        if st not in ('open', 'open_resp', 'hc_local'):
            return None
        return wire.build_continuation(sid, b'')
    add('naked-continuation', [PE], naked_cont)
    add('push-promise-to-server', [PE], lambda h, sid, st: wire.build_push_promise(any_sid(h, sid), 2, hb(REQ)), roles=(False,))

    def push_disabled(h, sid, st):
        if st not in ('open', 'open_resp', 'hc_local'):
            return None
        assert h.t.call('update_settings', {2: 0}).ok
        assert h.send(wire.build_settings(ack=True)).ok
        return wire.build_push_promise(sid, h.peer_next, hb(REQ))
    add('push-promise-while-push-disabled', [PE], push_disabled, roles=(True,))

    def push_odd(h, sid, st):
        if st not in ('open', 'open_resp', 'hc_local'):
            return None
        return wire.build_push_promise(sid, h.e_next + 100, hb(REQ))
    add('push-promise-odd-promised-id', [PE], push_odd, roles=(True,))

    def push_on_pushed(h, sid, st):
        if st not in ('open', 'open_resp', 'hc_local'):
            return None
        p = h.peer_next
        assert h.send(wire.build_push_promise(sid, p, hb(REQ))).ok
        h.peer_next += 2
        return wire.build_push_promise(p, p + 2, hb(REQ))
    add('push-promise-on-pushed-stream', [PE], push_on_pushed, roles=(True,))
    add('priority-self-dependency', [PE], lambda h, sid, st: wire.build_priority(any_sid(h, sid), any_sid(h, sid)))

    def headers_self_dep(h, sid, st):
        tsid = h.peer_next
        return wire.build_headers(tsid, hb(REQ), priority=(tsid, False, 5))
    add('headers-priority-self-dependency', [PE], headers_self_dep, roles=(False,))
    add('settings-enable-push-2', [PE], lambda h, sid, st: wire.build_settings([(2, 2)]))
    add('settings-max-frame-size-16383', [PE], lambda h, sid, st: wire.build_settings([(5, 16383)]))
    add('settings-max-frame-size-2^24', [PE], lambda h, sid, st: wire.build_settings([(5, 2 ** 24)]))
    add('settings-enable-connect-protocol-2', [PE], lambda h, sid, st: wire.build_settings([(8, 2)]))
    add('window-update-0-on-connection', [PE], lambda h, sid, st: wire.build_window_update(0, 0))
    add('window-update-0-on-stream', [PE], lambda h, sid, st: wire.build_window_update(any_sid(h, sid), 0))

    def pad_too_long_data(h, sid, st):
        if st not in ('open_resp', 'hc_local') and not (st == 'open' and not h.e_client):
            return None
        return wire.raw_frame(wire.DATA, wire.F_PADDED, sid, bytes([5]) + b'abc')
    add('data-pad-length-exceeds-payload', [PE], pad_too_long_data)

    def pad_too_long_headers(h, sid, st):
        tsid = h.peer_next if not h.e_client else sid
        if h.e_client and st not in ('open', 'hc_local'):
            return None
        return wire.raw_frame(wire.HEADERS, wire.F_PADDED | wire.F_END_HEADERS, tsid, bytes([200]) + hb(RESP))
    add('headers-pad-length-exceeds-payload', [PE], pad_too_long_headers)

    def over_mcs(h, sid, st):
        assert h.t.call('update_settings', {3: 1}).ok
        assert h.send(wire.build_settings(ack=True)).ok
        if st in ('open', 'open_resp', 'hc_local', 'hc_remote'):
            return wire.build_headers(h.peer_next, hb(REQ))
        a = h.peer_next
        r = h.send(wire.build_headers(a, hb(REQ)))
        if not r.ok:
            return None
        h.peer_next += 2
        return wire.build_headers(a + 2, hb(REQ))
    add('peer-stream-over-max-concurrent-streams', [PE, RS], over_mcs, roles=(False,))

    def second_response(h, sid, st):
        if st not in ('open_resp',):
            return None
        return wire.build_headers(sid, hb(RESP))
    add('second-response-without-end-stream', [PE], second_response, roles=(True,))

    def data_before_headers(h, sid, st):
        if st not in ('open', 'hc_local'):
            return None
        return wire.build_data(sid, b'x')
    add('data-before-response-headers', [PE], data_before_headers, roles=(True,))

    def bad_hdrs(hs_req, hs_resp):
        def fn(h, sid, st):
            if h.e_client:
                if st not in ('open', 'hc_local'):
                    return None
                return wire.build_headers(sid, hb(hs_resp))
            return wire.build_headers(h.peer_next, hb(hs_req))
        return fn
    add('uppercase-header-name', [PE], bad_hdrs(REQ + [(b'X-Up', b'1')], RESP + [(b'X-Up', b'1')]))
    add('missing-mandatory-pseudo-header', [PE], bad_hdrs(REQ[:3], [(b'x-no-status', b'1')]))
    add('connection-specific-header', [PE], bad_hdrs(REQ + [(b'connection', b'close')], RESP + [(b'connection', b'close')]))
    add('pseudo-header-after-regular', [PE], bad_hdrs([(b'x-a', b'1')] + REQ, [(b'x-a', b'1')] + RESP))

    def cl_mismatch(h, sid, st):
        if h.e_client:
            if st not in ('open', 'hc_local'):
                return None
            return wire.build_headers(sid, hb(RESP + [(b'content-length', b'5')])) + wire.build_data(sid, b'abc', end_stream=True)
        t = h.peer_next
        return wire.build_headers(t, hb(scen.REQ_POST + [(b'content-length', b'5')])) + wire.build_data(t, b'abcdefg', end_stream=True)
    add('content-length-mismatch', [PE], cl_mismatch)

    def info_es(h, sid, st):
        if st not in ('open', 'hc_local'):
            return None
        return wire.build_headers(sid, hb(INFO), end_stream=True)
    add('informational-response-with-end-stream', [PE], info_es, roles=(True,))

    def cont_flood(h, sid, st):
        tsid = h.peer_next if not h.e_client else sid
        if h.e_client and st not in ('open', 'hc_local'):
            return None
        out = wire.build_headers(tsid, hb(REQ if not h.e_client else RESP), end_headers=False)
        for i in range(70):
            out += wire.build_continuation(tsid, b'', end_headers=(i == 69))
        return out
    add('continuation-flood', [PE, EYC], cont_flood)

    def resp_unopened(h, sid, st):
        return wire.build_headers(h.e_next + 20, hb(RESP))
    add('response-on-stream-client-never-opened', [PE], resp_unopened, roles=(True,))

    def resp_unpromised(h, sid, st):
        return wire.build_headers(h.peer_next + 20, hb(RESP))
    add('response-on-never-promised-even-stream', [PE], resp_unpromised, roles=(True,))
    return C


CATALOGUE = cat()
KINDS = sorted(CATALOGUE)
GRID = [(k, s, r) for k in KINDS for s in STATES for r in (True, False) if r in CATALOGUE[k][2]]


def n_cases(tier):
    return len(GRID) + (6000 if tier == 'quick' else 400000)


def build_state(e_client, state, observer=None, small_window=False, big_window=False):
    e_settings = None
    if small_window:
        e_settings = {4: 10}
    elif big_window:
        e_settings = {4: 2 ** 20}
    h = scen.Hostile(e_client, e_settings=e_settings, keep_log=True, observer=observer)
    sid = None
    if state == 'fresh':
        pass
    elif state == 'closed_es_cleaned':
        sid = h.reach('closed_es')
        h.cleanup()
    elif state in ('pushed_closed_es', 'pushed_closed_es_cleaned'):
        # a pushed stream (the highest one the server promised) that ended normally; optionally already forgotten
        if not e_client:
            return h, None
        par = h.reach('open')
        sid = h.peer_next
        h.peer_next += 2
        assert h.send(wire.build_push_promise(par, sid, hb(REQ))).ok
        assert h.send(wire.build_headers(sid, hb(RESP), end_stream=True)).ok
        if state.endswith('cleaned'):
            h.cleanup()
    else:
        sid = h.reach(state)
    return h, sid


def run_case(idx, rng, tier, rep):
    if idx < len(GRID):
        return run_catalogue(GRID[idx], rng, rep)
    return run_random(idx, rng, tier, rep)


def run_catalogue(item, rng, rep):
    kind, state, e_client = item
    fn, codes, roles, group = CATALOGUE[kind]
    mon = GoawayMonitor(e_client)
    found = []

    def observer(data, res):
        found.extend(mon.check(data, res, rep))

    h, sid = build_state(e_client, state, observer=observer,
                         small_window=(kind in ('data-overruns-stream-window', 'padded-data-overruns-stream-window')),
                         big_window=(kind == 'data-overruns-connection-window'))
    data = fn(h, sid, state)
    if data is None:
        rep.count('catalogue_not_applicable')
        return
    rep.count('catalogue_injected')
    # deliver frame by frame so that events of earlier frames are never lost to a raise
    frames, used = wire.parse_frames(data)
    chunks = [data[f.offset:f.end] for f in frames]
    if used < len(data):
        chunks.append(data[used:])
    res = None
    for ch in chunks:
        res = h.send(ch)
        if res.exc is not None:
            break
    for key, what in found:
        rep.violation(key, what, wit(item, h))
    role = 'client' if e_client else 'server'
    if res.exc is None:
        rep.count('catalogue_not_raised')
        rep.observe('not_raised', '%s/%s/%s' % (kind, state, role))
        if kind in MUST_RAISE:
            rep.count('idle_stream_frames_checked_for_missing_connection_error')
            rep.violation('C18:violating-input-accepted:%s' % group,
                          'violation class %s (state %s, %s) is a connection error; receive_data raised nothing: events %s, frames %s' %
                          (kind, state, role, [type(e).__name__ for e in res.events], [f.brief() for f in res.frames]), wit(item, h))
        if kind in MUST_SURFACE:
            # window violations may be answered on the stream instead (RFC 7540 6.9.1), but never taken in silence: the category
            # has to surface somewhere
            rsts = [f for f in res.frames if f.type == wire.RST_STREAM and f.error_code == wire.FLOW_CONTROL_ERROR]
            rep.count('window_violations_checked_for_silent_acceptance')
            if not rsts:
                rep.violation('C18:violating-input-accepted:%s' % group,
                              'violation class %s (state %s, %s) raised nothing and reset nothing: events %s, frames %s' %
                              (kind, state, role, [type(e).__name__ for e in res.events], [f.brief() for f in res.frames]), wit(item, h))
        return
    if not isinstance(res.exc, h2.exceptions.ProtocolError):
        rep.count('catalogue_non_protocol_exception')
        return
    rep.count('catalogue_raised')
    code = int(getattr(res.exc, 'error_code', -1))
    rep.observe('raised_codes', '%s->%d' % (kind, code))
    rep.nontrivial(('cat', kind, state, e_client))
    if code not in codes:
        rep.violation('C18:wrong-code:%s:got-%d' % (group, code),
                      'violation class %s (state %s, %s) must give code in %s, exception %s carries %d' %
                      (kind, state, role, sorted(codes), type(res.exc).__name__, code), wit(item, h))
    if len(rep.samples) < 3 and rng.random() < 0.02:
        rep.sample({'layer': 'catalogue', 'kind': kind, 'state': state, 'role': role, 'code': code,
                    'injected_hex': data[:64].hex()})


def wit(item, h):
    return {'case': list(item) if isinstance(item, tuple) else item, 'log_tail': h.t.tail_log(12)}


def run_random(idx, rng, tier, rep):
    e_client = rng.random() < 0.5
    cfg = dict(header_encoding=rng.choice([None, None, 'utf-8']))
    t = core.Tap(core.make_conn(e_client, **cfg), keep_log=True)
    t.call('initiate_connection')
    mon = GoawayMonitor(e_client)
    pg = gen.PeerGen(rng, e_client, hostile=rng.choice([0.05, 0.15, 0.3]), hdr_hostile=rng.choice([0.0, 0.1, 0.3]))
    first = pg.preface()
    if rng.random() < 0.02:
        first = gen.mutate_bytes(rng, first)
    pending = [first]
    nsid = 1
    raised = 0
    delivered = []
    for i in range(rng.choice([5, 15, 40])):
        if e_client and rng.random() < 0.3:
            r = t.call('send_headers', nsid, gen.valid_headers(rng, 'request'), end_stream=rng.random() < 0.5)
            if r.ok:
                pg.note_e_stream(nsid)
            nsid += 2
        elif rng.random() < 0.05 and pg.open:
            t.call('reset_stream', rng.choice(list(pg.open.keys())))
        msg = pending.pop() if pending else pg.step()
        if rng.random() < 0.08:
            msg = gen.mutate_bytes(rng, msg)
        frames, used = wire.parse_frames(msg)
        chunks = [msg[f.offset:f.end] for f in frames]
        if used < len(msg):
            chunks.append(msg[used:])
        for ch in chunks:
            delivered.append(ch)
            res = t.call('receive_data', ch)
            for key, what in mon.check(ch, res, rep):
                rep.violation(key, what, {'role': 'client' if e_client else 'server', 'cfg': cfg,
                                          'log_tail': t.tail_log(10)})
            if res.exc is not None:
                raised += 1
        if raised > 2:
            break
    if raised:
        rep.nontrivial(('rnd', e_client, b''.join(delivered)))
        if len(rep.samples) < 3 and rng.random() < 0.01:
            rep.sample({'layer': 'random', 'role': 'client' if e_client else 'server', 'log_tail': t.tail_log(6)})
