"""C15 - inbound header validation accepts exactly the conformant header blocks.

The scripted peer constructs decoded header lists it knows exactly (literal-only
HPACK encoder), delivers them in each block position, and an independent RFC 7540
8.1.2 predicate (h2mon.hdrmodel) decides whether the block must be delivered or
refused with PROTOCOL_ERROR.  Delivered headers must equal the decoded block
(cookie fields joined under normalisation, text under header_encoding).
"""
import h2.exceptions

from .. import core, gen, hdrmodel, scen, wire, hpackmini as hm
from ..scen import REQ, RESP, hb

LEVEL = 'exploration'
RULE = ('each case = one long-lived connection (config: validate_inbound x normalize_inbound x header_encoding) receiving up to '
        '12 header blocks, each on a fresh stream, in positions request / request-trailers (server) and response / '
        'informational / response-trailers / pushed-request (client), on streams where the endpoint itself may already have sent '
        'body, trailers, END_STREAM or (server) 1xx/final response; blocks are rule-targeted (one violation of each '
        '8.1.2 rule at first/middle/last position) or random over an adversarial byte alphabet incl. empty names; '
        'non-trivial = the predicate gave a verdict and it was compared; distinct = hash of (config, position, decoded list)')
MINIMA = {'verdict_conformant_checked': 4000, 'verdict_nonconformant_checked': 4000, 'delivered_headers_compared': 4000,
          'validation_off_checked': 1000, 'cookie_join_checked': 150, 'inbound_block_after_local_history': 2000, 'inbound_block_after_local_trailers': 1000, 'header_encoding_checked': 500}

RULE_MUTATIONS = ['empty-name', 'uppercase', 'ws-name', 'ws-value', 'connection', 'te-bad', 'te-ok', 'dup-pseudo', 'pseudo-late',
                  'unknown-pseudo', 'wrong-role-pseudo', 'drop-required', 'authority-host-mismatch', 'authority-host-equal',
                  'empty-path', 'empty-authority', 'empty-value', 'protocol', 'cookies', 'binary-value', 'adversarial']


def n_cases(tier):
    return 12000 if tier == 'quick' else 600000


def base_headers(rng, kind):
    if kind in ('request', 'push'):
        h = [(b':method', rng.choice([b'GET', b'POST', b'OPTIONS'])), (b':scheme', b'https'),
             (b':authority', rng.choice([b'example.com', b'a.test:8443'])), (b':path', rng.choice([b'/', b'/x?y=1', b'*']))]
        if rng.random() < 0.08:
            # RFC 8441 extended CONNECT: :protocol anywhere among the pseudo-header fields
            h[0] = (b':method', b'CONNECT')
            h.append((b':protocol', rng.choice([b'websocket', b'connect-udp'])))
        rng.shuffle(h)
    elif kind == 'response':
        # (8.1.2 says nothing about the shape of a :status value: odd ones are delivered like any other)
        h = [(b':status', rng.choice([b'200', b'404', b'100', b'103', b'500', b'200', b'204', b'1xx', b'10a', b'1.0', b'2x0', b'abc', b'1']))]
    else:
        h = []
    for _ in range(rng.randrange(0, 4)):
        h.append((rng.choice([b'x-a', b'accept', b'user-agent', b'x-trace-id', b'etag']), rng.choice([b'', b'1', b'v v', b'*/*', b'abc'])))
    return h


def mutate(rng, kind, h):
    m = rng.choice(RULE_MUTATIONS)
    pos = rng.choice([0, len(h) // 2, len(h)])
    regular_start = next((i for i, (n, _) in enumerate(h) if not n.startswith(b':')), len(h))
    if m == 'empty-name':
        h.insert(pos, (b'', rng.choice([b'', b'v'])))
    elif m == 'uppercase':
        h.insert(max(pos, regular_start), (rng.choice([b'X-Up', b'aB', b'Z']), b'v'))
    elif m == 'ws-name':
        h.insert(max(pos, regular_start), (rng.choice([b' x-ws', b'x-ws ', b'\tx-ws', b'x-ws\t']), b'v'))
    elif m == 'ws-value':
        h.insert(max(pos, regular_start), (b'x-ws', rng.choice([b' v', b'v ', b'\tv', b'v\t', b' ', b'a b'])))
    elif m == 'connection':
        h.insert(max(pos, regular_start), (rng.choice([b'connection', b'proxy-connection', b'keep-alive', b'transfer-encoding',
                                                      b'upgrade']), rng.choice([b'close', b'', b'chunked'])))
    elif m == 'te-bad':
        h.insert(max(pos, regular_start), (b'te', rng.choice([b'gzip', b'trailers, deflate', b'', b'chunked'])))
    elif m == 'te-ok':
        h.insert(max(pos, regular_start), (b'te', b'trailers'))
    elif m == 'dup-pseudo':
        ps = [x for x in h if x[0].startswith(b':')]
        if ps:
            h.insert(min(pos, regular_start), rng.choice(ps))
        else:
            h.insert(0, (b':status', b'200'))
    elif m == 'pseudo-late':
        h.append((rng.choice([b':path', b':status', b':method', b':scheme', b':authority']), rng.choice([b'/', b'200', b'GET'])))
    elif m == 'unknown-pseudo':
        h.insert(min(pos, regular_start), (rng.choice([b':unknown', b':', b':x', b':methodd']), b'v'))
    elif m == 'wrong-role-pseudo':
        h.insert(min(pos, regular_start), rng.choice([(b':status', b'200'), (b':path', b'/'), (b':method', b'GET'), (b':scheme', b'http'),
                                                       (b':authority', b'x')]))
    elif m == 'drop-required':
        ps = [i for i, x in enumerate(h) if x[0].startswith(b':')]
        if ps:
            h.pop(rng.choice(ps))
    elif m == 'authority-host-mismatch':
        h.insert(max(pos, regular_start), (b'host', rng.choice([b'other.example', b'', b'EXAMPLE.COM'])))
    elif m == 'authority-host-equal':
        a = dict(h).get(b':authority')
        if a is not None:
            h.insert(max(pos, regular_start), (b'host', a))
    elif m == 'empty-path':
        h[:] = [(n, b'') if n == b':path' else (n, v) for n, v in h]
    elif m == 'empty-authority':
        h[:] = [(n, b'') if n == b':authority' else (n, v) for n, v in h]
        if rng.random() < 0.5:
            h.insert(max(pos, regular_start), (b'host', rng.choice([b'', b'example.com'])))
    elif m == 'empty-value':
        h.insert(max(pos, regular_start), (b'x-empty', b''))
    elif m == 'protocol':
        h.insert(min(pos, regular_start), (b':protocol', b'websocket'))
    elif m == 'cookies':
        for _ in range(rng.randrange(1, 4)):
            h.insert(rng.randrange(regular_start, len(h) + 1), (b'cookie', rng.choice([b'a=b', b'c=d; e=f', b'', b'k=' + b'v' * 30])))
    elif m == 'binary-value':
        h.insert(max(pos, regular_start), (b'x-bin', bytes(rng.randrange(128, 256) for _ in range(rng.randrange(1, 4)))))
    else:
        h.insert(rng.randrange(len(h) + 1), (gen.adversarial_bytes(rng), gen.adversarial_bytes(rng)))
    return m


def run_case(idx, rng, tier, rep):
    e_client = rng.random() < 0.5
    cfg = dict(validate_inbound_headers=rng.random() < 0.8, normalize_inbound_headers=rng.random() < 0.7,
               header_encoding=rng.choice([None, None, None, 'utf-8']))
    h = scen.Hostile(e_client, cfg=cfg, keep_log=True)
    t = h.t
    for _ in range(rng.randrange(3, 13)):
        if e_client:
            pos = rng.choice(['response', 'response', 'resp_trailers', 'push'])
        else:
            pos = rng.choice(['request', 'request', 'req_trailers'])
        kind = {'request': 'request', 'push': 'push', 'response': 'response', 'resp_trailers': 'trailers', 'req_trailers': 'trailers'}[pos]
        hs = base_headers(rng, kind)
        muts = []
        r = rng.random()
        if r < 0.7:
            muts.append(mutate(rng, kind, hs))
            if rng.random() < 0.15:
                muts.append(mutate(rng, kind, hs))
        if any(n == b'content-length' for n, _ in hs):
            continue
        verdict, reason = hdrmodel.conformant('request' if kind == 'push' else kind, hs)
        # informational responses cannot carry END_STREAM; decide like a peer would, from the first field
        informational = False
        if kind == 'response':
            for n, v in hs:
                if not n.startswith(b':'):
                    break
                if n == b':status':
                    informational = v.startswith(b'1')
                    break
        block = hm.encode(hs, rng.choice([hm.WITHOUT_INDEXING, hm.INCREMENTAL, hm.NEVER]))
        # ---- set-up of the position
        ok = True
        if pos == 'request':
            sid = h.peer_next
            h.peer_next += 2
            data = wire.build_headers(sid, block, end_stream=rng.random() < 0.5)
            want_event = 'RequestReceived'
        elif pos == 'req_trailers':
            sid, r0 = h.peer_request(headers=scen.REQ_POST)
            ok = r0.ok and local_history(h, rng, rep, sid)
            data = wire.build_headers(sid, block, end_stream=True)
            want_event = 'TrailersReceived'
        elif pos == 'response':
            sid, r0 = client_request(h, rng, rep)
            ok = r0
            data = wire.build_headers(sid, block, end_stream=(rng.random() < 0.5 and not informational and
                                                               not any(v.startswith(b'1') for n, v in hs if n == b':status')))
            want_event = 'InformationalResponseReceived' if informational else 'ResponseReceived'
        elif pos == 'resp_trailers':
            sid, r0 = client_request(h, rng, rep, first=False)
            ok = r0 and h.peer_headers(sid, RESP).ok
            ok = ok and (rng.random() < 0.7 or local_history(h, rng, rep, sid, True))
            data = wire.build_headers(sid, block, end_stream=True)
            want_event = 'TrailersReceived'
        else:
            sid, r0 = client_request(h, rng, rep)
            ok = r0
            pid = h.peer_next
            h.peer_next += 2
            data = wire.build_push_promise(sid, pid, block)
            want_event = 'PushedStreamReceived'
        if not ok:
            return
        res = h.send(data)
        w = {'cfg': cfg, 'role': 'client' if e_client else 'server', 'position': pos, 'headers': hs, 'mutations': muts,
             'oracle': [verdict, reason], 'log_tail': t.tail_log(2)}
        if len(rep.samples) < 3 and muts and idx % 97 == 0:
            rep.sample({'cfg': cfg, 'position': pos, 'headers': hs, 'oracle': [verdict, reason], 'raised': type(res.exc).__name__ if res.exc else None})
        sig = (tuple(sorted(cfg.items(), key=str)), pos, tuple(hs))
        delivered = None
        for e in res.events:
            if type(e).__name__ in ('RequestReceived', 'ResponseReceived', 'InformationalResponseReceived', 'TrailersReceived',
                                    'PushedStreamReceived'):
                delivered = e
                break
        refused = res.exc is not None
        if res.exc is not None and not isinstance(res.exc, h2.exceptions.ProtocolError):
            rep.violation('C15:' + core.exc_key(res.exc), 'receive_data raised %r' % res.exc, w)
            return
        if not cfg['validate_inbound_headers']:
            rep.count('validation_off_checked')
            rep.nontrivial(sig)
            if refused and cfg['header_encoding'] and not decodable(hs, cfg['header_encoding']):
                rep.count('undetermined:undecodable-text')
                return
            if refused:
                # without validation only structural problems may refuse a block; none are generated here
                rep.violation('C15:block-refused-with-validation-off:%s' % reason,
                              'block refused (%s) although inbound validation is off' % core.exc_key(res.exc), w)
                return
            if delivered is not None:
                compare_delivery(rep, cfg, hs, delivered, want_event, w)
            continue
        if verdict is None:
            rep.count('undetermined:' + reason)
            if refused:
                return
            continue
        rep.nontrivial(sig)
        if verdict:
            rep.count('verdict_conformant_checked')
            if refused:
                if cfg['header_encoding'] and not decodable(hs, cfg['header_encoding']):
                    rep.count('undetermined:undecodable-text')
                    return
                rep.violation('C15:conformant-block-refused:%s:%s' % (kind, core.exc_key(res.exc)),
                              'conformant %s block refused: %s' % (pos, res.exc), w)
                return
            if delivered is None:
                rep.violation('C15:conformant-block-not-delivered:%s' % kind, 'no header event for a conformant %s block (events %s)' %
                              (pos, [type(e).__name__ for e in res.events]), w)
                return
            compare_delivery(rep, cfg, hs, delivered, want_event, w)
        else:
            rep.count('verdict_nonconformant_checked')
            if not refused:
                rst = [f for f in res.frames if f.type == wire.RST_STREAM and f.error_code == wire.PROTOCOL_ERROR]
                if delivered is None and rst:
                    continue
                rep.violation('C15:nonconformant-block-delivered:%s:%s' % (kind, reason),
                              'non-conformant %s block (%s) was delivered' % (pos, reason), w)
                return
            code = getattr(res.exc, 'error_code', None)
            if code is None or int(code) != wire.PROTOCOL_ERROR:
                rep.violation('C15:refusal-code-not-PROTOCOL_ERROR:%s:got-%s' % (reason, code),
                              'non-conformant block refused with code %r' % code, w)
            return


def client_request(h, rng, rep, first=True):
    """E (a client) opens a stream; often it has already sent more of its own message (body, trailers) before the
    peer's block arrives: what E sent must not change how the inbound block is judged."""
    if rng.random() < 0.65:
        sid, r0 = h.e_request(end_stream=rng.random() < 0.3)
        return sid, r0.ok
    sid, r0 = h.e_request(headers=scen.REQ_POST)
    return sid, r0.ok and (not first or local_history(h, rng, rep, sid, True))


def local_history(h, rng, rep, sid, responded=False):
    """E's own side of the stream advances: (server) informational/final response, then body, trailers or END_STREAM."""
    t = h.t
    steps = []
    if not responded:
        if rng.random() < 0.6:
            return True
        if rng.random() < 0.3:
            steps.append(('send_headers', sid, [(b':status', b'103')]))
        if rng.random() < 0.8:
            steps.append(('send_headers', sid, RESP))
            responded = True
    if responded:
        r = rng.random()
        if r < 0.3:
            steps.append(('send_data', sid, b'abc'))
        if r < 0.15 or 0.3 <= r < 0.65:
            steps.append(('send_headers', sid, scen.TRAILERS))
        elif 0.65 <= r < 0.8:
            steps.append(('end_stream', sid))
    for st in steps:
        if st[0] == 'send_headers' and st[2] is scen.TRAILERS:
            r0 = t.call('send_headers', sid, st[2], end_stream=True)
            rep.count('inbound_block_after_local_trailers')
        else:
            r0 = t.call(*st)
        if not r0.ok:
            return False
    if steps:
        rep.count('inbound_block_after_local_history')
    return True


def decodable(hs, enc):
    try:
        for n, v in hs:
            n.decode(enc)
            v.decode(enc)
        return True
    except UnicodeDecodeError:
        return False


def compare_delivery(rep, cfg, hs, ev, want_event, w):
    if type(ev).__name__ != want_event:
        rep.violation('C15:wrong-event-type:%s-instead-of-%s' % (type(ev).__name__, want_event),
                      'block reported as %s, expected %s' % (type(ev).__name__, want_event), w)
        return
    want = hdrmodel.inbound_delivery(hs, cfg['normalize_inbound_headers'])
    got = list(ev.headers)
    enc = cfg['header_encoding']
    if enc:
        if not decodable(hs, enc):
            return
        rep.count('header_encoding_checked')
        if not all(isinstance(n, str) and isinstance(v, str) for n, v in got):
            rep.violation('C15:header-encoding-not-applied', 'headers not delivered as text under header_encoding=%r' % enc, w)
            return
        got = [(n.encode(enc), v.encode(enc)) for n, v in got]
    else:
        if not all(isinstance(n, bytes) and isinstance(v, bytes) for n, v in got):
            rep.violation('C15:headers-not-bytes', 'headers delivered as non-bytes without header_encoding', w)
            return
        got = [(bytes(n), bytes(v)) for n, v in got]
    rep.count('delivered_headers_compared')
    if got != want:
        rep.violation('C15:delivered-headers-differ-from-decoded-block', 'delivered %r, decoded block (after documented cookie join) %r'
                      % (got[:6], want[:6]), w)
        return
    ncookie = sum(1 for n, _ in hs if n == b'cookie')
    if cfg['normalize_inbound_headers'] and ncookie >= 1:
        rep.count('cookie_join_checked')
        last = list(ev.headers)[-1]
        if getattr(last, 'indexable', True) is not False:
            rep.violation('C15:joined-cookie-not-never-indexed', 'joined cookie field is not a never-indexed tuple', w)
