"""C17 - arbitrary peer bytes never produce a non-protocol exception.

Oracle: every receive_data call either returns a list or raises
h2.exceptions.ProtocolError (or a subclass).  Anything else is a violation
whose mechanism key is (exception type, innermost h2/hpack/hyperframe function).
"""
import h2.exceptions

from .. import core, gen, wire

LEVEL = 'exploration'
RULE = ('each case = one endpoint (role x header_encoding x inbound validate/normalise x initiated or not) fed a '
        'generated peer byte stream (structural frames with hostile fields / arbitrary HPACK blocks / CONTINUATION '
        'chains, optionally byte-mutated) in random chunks, feeding continues after errors; non-trivial = at least '
        'one receive_data call returned events or raised; distinct = hash of (config, input bytes)')
MINIMA = {'receive_calls': 1000, 'raised_protocol_error': 50, 'returned_events': 200}
ASSUMPTIONS = ['inputs are those reachable by the structural generator plus byte mutation; not all byte strings']


def n_cases(tier):
    return 150000 if tier == "quick" else 6000000


ENCODINGS = [None, None, 'utf-8', 'ascii']


def run_case(idx, rng, tier, rep):
    client = rng.random() < 0.5
    cfg = dict(header_encoding=rng.choice(ENCODINGS),
               validate_inbound_headers=rng.random() < 0.75,
               normalize_inbound_headers=rng.random() < 0.75)
    t = core.Tap(core.make_conn(client, **cfg), keep_log=False)
    initiated = rng.random() < 0.9
    if initiated:
        t.call('initiate_connection')
    pg = gen.PeerGen(rng, client, hostile=rng.choice([0.0, 0.1, 0.3, 0.6]), hdr_hostile=rng.choice([0.0, 0.2, 0.5]))
    stream = bytearray(pg.preface([(wire.S_MAX_FRAME_SIZE, 16384)] if rng.random() < 0.3 else ()))
    if rng.random() < 0.03:
        stream = bytearray(gen.mutate_bytes(rng, bytes(stream)))
    nsid = 1
    nmsg = rng.choice([3, 8, 20, 40])
    inputs = []
    raised_any = False
    got_events = False
    sig_out = []
    mutate = rng.random() < 0.35
    after_error = 0
    for i in range(nmsg):
        if after_error > 3:
            break
        if client and initiated and rng.random() < 0.25:
            r = t.call('send_headers', nsid, gen.valid_headers(rng, 'request'), end_stream=rng.random() < 0.5)
            if r.ok:
                pg.note_e_stream(nsid)
            nsid += 2
        elif initiated and rng.random() < 0.05 and pg.open:
            t.call('reset_stream', rng.choice(list(pg.open.keys())))
        msg = pg.step()
        if mutate and rng.random() < 0.3:
            msg = gen.mutate_bytes(rng, msg)
        stream += msg
        if rng.random() < 0.5 or i == nmsg - 1:
            # deliver what has accumulated, in chunks; sometimes keep a tail for the next round
            keep = rng.randrange(0, min(12, len(stream)) + 1) if rng.random() < 0.3 and i != nmsg - 1 else 0
            data = bytes(stream[:len(stream) - keep])
            del stream[:len(stream) - keep]
            for ch in gen.chunkings(rng, data):
                if raised_any:
                    after_error += 1
                    if after_error > 3:
                        break
                inputs.append(ch)
                rep.count('receive_calls')
                res = t.call('receive_data', ch)
                if res.exc is None:
                    if not isinstance(res.value, list):
                        rep.violation('C17:non-list-return', 'receive_data returned %r' % type(res.value).__name__,
                                      witness(client, cfg, initiated, inputs))
                    elif res.value:
                        got_events = True
                        rep.count('returned_events')
                        for e in res.value:
                            rep.observe('event_types', type(e).__name__)
                elif isinstance(res.exc, h2.exceptions.ProtocolError):
                    raised_any = True
                    rep.count('raised_protocol_error')
                    rep.observe('protocol_errors', core.exc_key(res.exc))
                else:
                    rep.count('raised_other')
                    key = 'C17:' + core.exc_key(res.exc)
                    rep.violation(key, 'receive_data raised %s: %s' % (type(res.exc).__name__, str(res.exc)[:200]),
                                  witness(client, cfg, initiated, inputs))
                    raised_any = True
    if got_events or raised_any:
        rep.nontrivial((client, sorted(cfg.items(), key=str), initiated, b''.join(inputs)))
    if idx % 997 == 0:
        rep.sample({'role': 'client' if client else 'server', 'cfg': cfg, 'initiated': initiated,
                    'chunks': [c.hex()[:160] for c in inputs[:6]], 'n_chunks': len(inputs)})


def witness(client, cfg, initiated, inputs):
    return {'role': 'client' if client else 'server', 'cfg': cfg, 'initiated': initiated,
            'chunks_hex': [c.hex() for c in inputs[-8:]], 'n_chunks': len(inputs)}
