"""C17 - arbitrary peer bytes never produce a non-protocol exception.

Oracle: every receive_data call either returns a list or raises
h2.exceptions.ProtocolError (or a subclass).  Anything else is a violation
whose mechanism key is (exception type, innermost h2/hpack/hyperframe function).
"""
import sys

import h2.exceptions

from .. import core, gen, wire

LEVEL = 'exploration'
RULE = ('each case = one endpoint (role x header_encoding x inbound validate/normalise x initiated or not) fed a '
        'generated peer byte stream (structural frames with hostile fields / arbitrary HPACK blocks / CONTINUATION '
        'chains, optionally byte-mutated) in random chunks, interleaved with local calls most of which are refused (invalid '
        'header lists on new ids, data, pushes, window/priority/settings calls with bad arguments), feeding continues after errors; non-trivial = at least '
        'one receive_data call returned events or raised; distinct = hash of (config, input bytes); plus a coverage-guided '
        'layer (sys.monitoring LINE events over h2 / hpack / hyperframe): per case a corpus of plausible streams is evolved by byte '
        'mutation, frame insertion and splicing, inputs that reach new library lines are kept')
MINIMA = {'receive_calls': 1000, 'raised_protocol_error': 50, 'returned_events': 200, 'greybox_executions': 10000,
          'greybox_inputs_kept_for_new_coverage': 500, 'refused_local_calls_between_deliveries': 20000, 'bursts_racing_a_local_reset': 2000}
ASSUMPTIONS = ['inputs are those reachable by the structural generator plus byte mutation; not all byte strings']


def n_random(tier):
    return 150000 if tier == "quick" else 6000000


def n_greybox(tier):
    return 48 if tier == "quick" else 960


def n_cases(tier):
    return n_random(tier) + n_greybox(tier)


ENCODINGS = [None, None, 'utf-8', 'ascii']

# ---------------------------------------------------------------------------------------------- coverage-guided layer
# sys.monitoring LINE events with DISABLE: a location reports once and then costs nothing, so "did this input reach a line of
# h2 / hpack / hyperframe that no earlier input of this case reached" is almost free.  restart_events() at the start of a case
# re-arms every location, which makes a case's feedback (and therefore its replay) independent of what the worker ran before.
_MON = {'on': False, 'seen': set(), 'new': 0}
_TOOL = 4


def _line_cb(code, line):
    fn = code.co_filename
    if '/h2/' in fn or '/hpack/' in fn or '/hyperframe/' in fn:
        key = (fn, line)
        if key not in _MON['seen']:
            _MON['seen'].add(key)
            _MON['new'] += 1
    return sys.monitoring.DISABLE


def _coverage_start():
    mon = getattr(sys, 'monitoring', None)
    if mon is None:
        return False
    if not _MON['on']:
        try:
            mon.use_tool_id(_TOOL, 'h2mon-c17')
            mon.register_callback(_TOOL, mon.events.LINE, _line_cb)
            mon.set_events(_TOOL, mon.events.LINE)
        except Exception:       # noqa
            return False
        _MON['on'] = True
    mon.restart_events()
    _MON['seen'] = set()
    _MON['new'] = 0
    return True


def _execute(rep, client, cfg, data, chunk_rng, inputs_out):
    """One execution of the greybox layer: a fresh endpoint with three requests open (clients) fed `data` in chunks."""
    t = core.Tap(core.make_conn(client, **cfg), keep_log=False)
    t.call('initiate_connection')
    if client:
        for sid in (1, 3, 5):
            t.call('send_headers', sid, gen.REQ_BASE, end_stream=(sid != 5))
    errors = 0
    for ch in gen.chunkings(chunk_rng, data, k=chunk_rng.choice([1, 1, 2, 3, 6])):
        inputs_out.append(ch)
        rep.count('receive_calls')
        rep.count('greybox_receive_calls')
        res = t.call('receive_data', ch)
        if res.exc is None:
            if res.value:
                rep.count('returned_events')
        elif isinstance(res.exc, h2.exceptions.ProtocolError):
            rep.count('raised_protocol_error')
            errors += 1
            if errors > 2:
                break
        else:
            rep.count('raised_other')
            rep.violation('C17:' + core.exc_key(res.exc), 'receive_data raised %s: %s' % (type(res.exc).__name__, str(res.exc)[:200]),
                          witness(client, cfg, True, inputs_out))
            break


def _random_frame(rng):
    sid = rng.choice([0, 1, 2, 3, 5, 7, 2 ** 31 - 1])
    k = rng.randrange(10)
    blk = gen.hpack_block(rng, gen.hostile_headers(rng, rng.choice(['request', 'response', 'trailers'])) if rng.random() < 0.5
                          else gen.valid_headers(rng, rng.choice(['request', 'response', 'informational', 'trailers'])), hostile=0.2)
    if k == 0:
        return wire.build_data(sid, bytes(rng.randrange(256) for _ in range(rng.randrange(0, 40))), end_stream=rng.random() < 0.3,
                               pad=rng.choice([None, 0, 3, 255]))
    if k == 1:
        return wire.build_headers(sid, blk, end_stream=rng.random() < 0.4, end_headers=rng.random() < 0.8,
                                  pad=rng.choice([None, None, 0, 9]), priority=rng.choice([None, None, (rng.choice([0, sid, 3]), True, 7)]))
    if k == 2:
        return wire.build_continuation(sid, blk[:rng.randrange(0, len(blk) + 1)], end_headers=rng.random() < 0.6)
    if k == 3:
        return wire.build_settings([(rng.choice([1, 2, 3, 4, 5, 6, 8, 9, 0xffff]), rng.choice([0, 1, 100, 16384, 2 ** 24, 2 ** 31 - 1, 2 ** 32 - 1]))
                                    for _ in range(rng.randrange(0, 4))], ack=rng.random() < 0.2)
    if k == 4:
        return wire.build_push_promise(sid, rng.choice([2, 4, 6, 1, 0]), blk, end_headers=rng.random() < 0.8)
    if k == 5:
        return wire.build_window_update(sid, rng.choice([0, 1, 1000, 2 ** 31 - 1]))
    if k == 6:
        return wire.build_rst(sid, rng.randrange(0, 16))
    if k == 7:
        return wire.build_goaway(rng.choice([0, 1, 7]), rng.randrange(0, 14), rng.choice([b'', b'dbg']))
    if k == 8:
        return wire.build_altsvc(sid, rng.choice([b'', b'o.example']), b'h2=":1"')
    return wire.raw_frame(rng.randrange(0, 256), rng.randrange(256), sid, bytes(rng.randrange(256) for _ in range(rng.randrange(0, 20))),
                          length=rng.choice([None, None, 0, 5, 2 ** 24 - 1]))


def run_greybox(idx, rng, tier, rep):
    if not _coverage_start():
        rep.count('greybox_unavailable')
        return
    client = rng.random() < 0.5
    cfg = dict(header_encoding=rng.choice(ENCODINGS), validate_inbound_headers=rng.random() < 0.75,
               normalize_inbound_headers=rng.random() < 0.75)
    # seed corpus: a few streams of plausible traffic for this role
    corpus = []
    for _ in range(4):
        pg = gen.PeerGen(rng, client, hostile=rng.choice([0.0, 0.1]), hdr_hostile=0.0)
        if client:
            for sid in (1, 3, 5):
                pg.note_e_stream(sid)
        data = bytearray(pg.preface())
        for _ in range(rng.choice([3, 8, 15])):
            data += pg.step()
        corpus.append(bytes(data))
    execs = 300 if tier == 'quick' else 2500
    added = 0
    for i in range(execs):
        base = rng.choice(corpus)
        r = rng.random()
        if i < len(corpus):
            data = corpus[i]
        elif r < 0.45:
            data = gen.mutate_bytes(rng, base)
        elif r < 0.7:
            # insert a freshly built (possibly odd) frame at a frame boundary of the base stream
            frames, used = wire.parse_frames(base[24:] if not client else base)
            off = (24 if not client else 0) + (rng.choice(frames).end if frames else 0)
            data = base[:off] + _random_frame(rng) + base[off:]
        elif r < 0.85:
            other = rng.choice(corpus)
            cut = rng.randrange(0, len(base) + 1)
            data = base[:cut] + other[rng.randrange(0, len(other) + 1):]
        else:
            data = base + b''.join(_random_frame(rng) for _ in range(rng.randrange(1, 4)))
        _MON['new'] = 0
        inputs = []
        _execute(rep, client, cfg, data, rng, inputs)
        rep.count('greybox_executions')
        if _MON['new'] and i >= len(corpus) and len(data) < 70000:
            corpus.append(data)
            added += 1
            rep.count('greybox_inputs_kept_for_new_coverage')
    rep.count('greybox_cases')
    rep.observe('greybox_lines_reached_per_case_hundreds', str(len(_MON['seen']) // 100))
    rep.nontrivial(('greybox', idx, client, sorted(cfg.items(), key=str), added, len(_MON['seen'])))
    if idx % 16 == 0:
        rep.sample({'layer': 'coverage-guided', 'role': 'client' if client else 'server', 'cfg': cfg, 'executions': execs,
                    'inputs_kept_for_new_coverage': added, 'distinct_library_lines_reached': len(_MON['seen'])})


def is_greybox(idx, tier):
    # spread the (long) coverage-guided cases evenly over the index range, so that every shard gets its share
    period = n_cases(tier) // n_greybox(tier)
    return idx % period == 0 and idx // period < n_greybox(tier)


def run_case(idx, rng, tier, rep):
    if is_greybox(idx, tier):
        return run_greybox(idx, rng, tier, rep)
    client = rng.random() < 0.5
    cfg = dict(header_encoding=rng.choice(ENCODINGS),
               validate_inbound_headers=rng.random() < 0.75,
               normalize_inbound_headers=rng.random() < 0.75)
    t = core.Tap(core.make_conn(client, **cfg), keep_log=False)
    initiated = rng.random() < 0.9
    if initiated:
        t.call('initiate_connection')
    pg = gen.PeerGen(rng, client, hostile=rng.choice([0.0, 0.1, 0.3, 0.6]), hdr_hostile=rng.choice([0.0, 0.2, 0.5]))
    stream = bytearray(pg.preface([(wire.S_MAX_FRAME_SIZE, 16384)] if rng.random() < 0.3 else ()))
    if rng.random() < 0.03:
        stream = bytearray(gen.mutate_bytes(rng, bytes(stream)))
    nsid = 1
    nmsg = rng.choice([3, 8, 20, 40])
    inputs = []
    raised_any = False
    got_events = False
    sig_out = []
    mutate = rng.random() < 0.35
    after_error = 0
    for i in range(nmsg):
        if after_error > 3:
            break
        if client and initiated and rng.random() < 0.25:
            r = t.call('send_headers', nsid, gen.valid_headers(rng, 'request'), end_stream=rng.random() < 0.5)
            if r.ok:
                pg.note_e_stream(nsid)
            nsid += 2
        elif initiated and rng.random() < 0.08 and pg.open:
            x = rng.choice(list(pg.open.keys()))
            t.call('reset_stream', x)
            if rng.random() < 0.6:
                # frames that were already on their way when the stream was reset: anything may race it, promises of fresh,
                # used and odd ids included
                rep.count('bursts_racing_a_local_reset')
                for _ in range(rng.choice([1, 2, 4])):
                    k = rng.randrange(6)
                    used = [y for y in pg.open if y % 2 == 0] or [2]
                    if k == 0 and client:
                        stream += wire.build_push_promise(x, rng.choice(used + [pg.next_sid, pg.next_sid + 2, 2, 3, 0]), pg._hdr('push'))
                    elif k == 1:
                        stream += wire.build_headers(x, pg._hdr('response' if client else 'trailers'), end_stream=rng.random() < 0.5)
                    elif k == 2:
                        stream += wire.build_data(x, b'r' * rng.choice([0, 1, 1000]), end_stream=rng.random() < 0.3, pad=rng.choice([None, 0, 9]))
                    elif k == 3:
                        stream += wire.build_window_update(x, rng.choice([0, 1, 2 ** 31 - 1]))
                    elif k == 4:
                        stream += wire.build_rst(x, rng.choice([0, 8]))
                    else:
                        stream += wire.build_priority(x, rng.choice([0, x, 1]), False, 3)
        elif initiated and rng.random() < 0.12:
            nsid = local_noise(t, rng, rep, pg, client, nsid)
        msg = pg.step()
        if mutate and rng.random() < 0.3:
            msg = gen.mutate_bytes(rng, msg)
        stream += msg
        if rng.random() < 0.5 or i == nmsg - 1:
            # deliver what has accumulated, in chunks; sometimes keep a tail for the next round
            keep = rng.randrange(0, min(12, len(stream)) + 1) if rng.random() < 0.3 and i != nmsg - 1 else 0
            data = bytes(stream[:len(stream) - keep])
            del stream[:len(stream) - keep]
            for ch in gen.chunkings(rng, data):
                if raised_any:
                    after_error += 1
                    if after_error > 3:
                        break
                inputs.append(ch)
                rep.count('receive_calls')
                res = t.call('receive_data', ch)
                if res.exc is None:
                    if not isinstance(res.value, list):
                        rep.violation('C17:non-list-return', 'receive_data returned %r' % type(res.value).__name__,
                                      witness(client, cfg, initiated, inputs))
                    elif res.value:
                        got_events = True
                        rep.count('returned_events')
                        for e in res.value:
                            rep.observe('event_types', type(e).__name__)
                elif isinstance(res.exc, h2.exceptions.ProtocolError):
                    raised_any = True
                    rep.count('raised_protocol_error')
                    rep.observe('protocol_errors', core.exc_key(res.exc))
                else:
                    rep.count('raised_other')
                    key = 'C17:' + core.exc_key(res.exc)
                    rep.violation(key, 'receive_data raised %s: %s' % (type(res.exc).__name__, str(res.exc)[:200]),
                                  witness(client, cfg, initiated, inputs))
                    raised_any = True
    if got_events or raised_any:
        rep.nontrivial((client, sorted(cfg.items(), key=str), initiated, b''.join(inputs)))
    if idx % 997 == 0:
        rep.sample({'role': 'client' if client else 'server', 'cfg': cfg, 'initiated': initiated,
                    'chunks': [c.hex()[:160] for c in inputs[:6]], 'n_chunks': len(inputs)})


def local_noise(t, rng, rep, pg, client, nsid):
    """Local calls, most of them refused, between deliveries: "any connection state" includes the states such calls leave
    behind.  Their outcome is not judged here; a hostile peer then talks on the ids they touched."""
    known = list(pg.open.keys()) or [1]
    sid = rng.choice(known + [nsid, nsid + 2, 0, 2, 4])
    a = rng.randrange(9)
    if a == 0:
        kind = 'request' if client else rng.choice(['response', 'informational', 'trailers'])
        r = t.call('send_headers', nsid if client and rng.random() < 0.7 else sid, gen.hostile_headers(rng, kind),
                   end_stream=rng.random() < 0.5)
        if client:
            if rng.random() < 0.6:
                pg.note_e_stream(nsid)        # the peer answers on that id whether or not the request went out
            nsid += 2
    elif a == 1:
        r = t.call('send_data', sid, b'x' * rng.choice([0, 1, 70000]), end_stream=rng.random() < 0.3)
    elif a == 2:
        r = t.call('end_stream', sid)
    elif a == 3:
        r = t.call('push_stream', sid, rng.choice([2, 4, 6, 8, 3]), gen.hostile_headers(rng, 'request') if rng.random() < 0.5
                   else gen.valid_headers(rng, 'request'))
    elif a == 4:
        r = t.call('increment_flow_control_window', rng.choice([0, 1, 2 ** 31 - 1, 2 ** 31]), rng.choice([None, sid]))
    elif a == 5:
        r = t.call('prioritize', sid, weight=rng.choice([0, 16, 256, 257]), depends_on=rng.choice([0, sid, 1]))
    elif a == 6:
        r = t.call('update_settings', {rng.choice([1, 2, 3, 4, 5, 6, 8]): rng.choice([0, 1, 100, 16384, 2 ** 31])})
    elif a == 7:
        r = t.call('acknowledge_received_data', rng.choice([0, 1, 100000]), sid)
    else:
        r = t.call('reset_stream', sid, rng.choice([0, 8, 2 ** 32]))
    rep.count('local_calls_between_deliveries')
    if r.exc is not None:
        rep.count('refused_local_calls_between_deliveries')
    return nsid


def witness(client, cfg, initiated, inputs):
    return {'role': 'client' if client else 'server', 'cfg': cfg, 'initiated': initiated,
            'chunks_hex': [c.hex() for c in inputs[-8:]], 'n_chunks': len(inputs)}
