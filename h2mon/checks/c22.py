"""C22 - server push rules are enforced on both ends.

Three workloads, chosen per case:

 server  - a real server E against a scripted client.  Every push_stream call is
           judged: it must succeed exactly when the client's ENABLE_PUSH as last
           delivered to E is 1, the parent is a client-initiated stream on which E
           can still send (open or half-closed(remote), not reset, E has not ended
           it), the request header list is valid and the promised id is a fresh
           even id above everything E used; it then emits exactly one
           PUSH_PROMISE(parent, promised) header block that decodes (monitor-owned
           HPACK decoder) to the documented normal form of the list.  Otherwise it
           raises ProtocolError, emits nothing and leaves the id unused.  Frames
           the client sends on a promised stream (HEADERS, DATA) and PUSH_PROMISE
           frames sent by a client never produce request / data / push events.
 client  - a real client E against a scripted server.  Every delivered
           PUSH_PROMISE is judged against E's ENABLE_PUSH *in force* (the value of
           the last SETTINGS frame of E that was acknowledged; changes in flight
           do not count yet): disabled => connection error PROTOCOL_ERROR;
           enabled, parent opened by E and still receivable, fresh even promised
           id, valid request headers => exactly one PushedStreamReceived with
           the right parent id, promised id and header list; parent reset by E =>
           the promised stream is refused with RST_STREAM and no event; pushed
           or never-opened parents, invalid header lists, bad promised ids =>
           an error and no PushedStreamReceived.  The promised stream then accepts
           a response (ResponseReceived, DataReceived) and refuses request-shaped
           header blocks and further PUSH_PROMISE frames on it.
 duet    - a real server and a real client joined by byte pipes, the client
           toggling ENABLE_PUSH while the server pushes, with arbitrary delivery
           points: every push the server accepted must arrive as
           PushedStreamReceived (or be refused by RST_STREAM when the client had
           reset the parent) and never raise at the client; the server accepts a
           push exactly according to the SETTINGS bytes that have reached it.
"""
import h2.events
import h2.exceptions

from .. import core, scen, wire, duet, hdrmodel
from .. import hpackmini as hm
from ..scen import RESP, hb

LEVEL = 'exploration'
RULE = ('random histories in three workloads (server against scripted client, client against scripted server, real client + real server): '
        'push_stream calls / PUSH_PROMISE frames over parents in every state (idle, open, response sent, half-closed either way, ended, reset by '
        'either side, pushed streams), ENABLE_PUSH 0/1 at handshake and changed mid-history with the ACK delivered 0..k steps later, valid and '
        'invalid request header lists, fresh / odd / reused promised ids, header blocks split over CONTINUATION frames, then traffic on the promised '
        'stream; non-trivial = at least one refused or disabled push judged; distinct = hash of the step list')
MINIMA = {'parents_whose_request_ended_with_trailers': 1000, 'server_push_judged': 8000, 'server_push_expected_ok': 2500, 'server_push_refused:push-disabled': 500,
          'server_push_refused:parent-state': 1000, 'server_push_refused:bad-headers': 300, 'server_push_refused:bad-promised-id': 300,
          'server_push_refused:pushed-parent': 200, 'server_push_block_decoded': 2500, 'server_push_while_setting_changed_midway': 500,
          'client_promise_judged': 8000, 'client_promise_accepted': 2000, 'client_promise_disabled_conn_error': 400,
          'client_promise_while_change_in_flight': 400, 'client_promise_refused_after_local_reset': 100,
          'client_promise_bad_parent_refused': 500, 'client_promise_after_cleanup': 500, 'client_promise_bad_headers_refused': 200, 'client_promise_on_pushed_stream_refused': 150,
          'client_promised_stream_response_accepted': 800, 'client_promised_stream_request_refused': 150,
          'server_received_promise_refused': 150, 'server_frames_on_promised_stream_refused': 200,
          'duet_push_delivered_and_matched': 1500, 'duet_push_refused_by_server_as_expected': 200, 'duet_push_in_flight_setting_change': 150}
EXHAUSTIVE = {}

TOP = 2 ** 31 - 1
REQS = [
    [(b':method', b'GET'), (b':scheme', b'https'), (b':authority', b'example.com'), (b':path', b'/')],
    [(b':method', b'GET'), (b':scheme', b'https'), (b':authority', b'example.com'), (b':path', b'/style.css'), (b'accept', b'text/css')],
    [(b':method', b'HEAD'), (b':scheme', b'http'), (b':path', b'/x?y=1'), (b':authority', b'a.example'), (b'x-tag', b'1'), (b'cookie', b'a=b'),
     (b'cookie', b'c=d')],
    [(b':method', b'GET'), (b':scheme', b'https'), (b':path', b'/h'), (b'host', b'example.com')],
]
# request lists that are not valid (after outbound normalisation they still are not)
BAD_REQS = [
    [(b':method', b'GET'), (b':scheme', b'https'), (b':authority', b'example.com')],                        # no :path
    [(b':scheme', b'https'), (b':authority', b'example.com'), (b':path', b'/')],                            # no :method
    [(b':method', b'GET'), (b':authority', b'example.com'), (b':path', b'/')],                              # no :scheme
    [(b':method', b'GET'), (b':scheme', b'https'), (b':authority', b'example.com'), (b':path', b'')],       # empty :path
    [(b':status', b'200')],                                                                                 # a response
    [(b':method', b'GET'), (b':scheme', b'https'), (b':authority', b'example.com'), (b':path', b'/'), (b':status', b'200')],
    [(b':method', b'GET'), (b':scheme', b'https'), (b':authority', b'example.com'), (b':path', b'/'), (b':path', b'/b')],
    [(b'x-first', b'1'), (b':method', b'GET'), (b':scheme', b'https'), (b':authority', b'example.com'), (b':path', b'/')],
    [(b':method', b'GET'), (b':scheme', b'https'), (b':authority', b'example.com'), (b':path', b'/'), (b':unknown', b'x')],
    [(b':method', b'GET'), (b':scheme', b'https'), (b':authority', b'example.com'), (b':path', b'/'), (b'te', b'gzip')],
]
# additionally invalid when *received* (a sender normalises these away)
BAD_INBOUND_ONLY = [
    [(b':method', b'GET'), (b':scheme', b'https'), (b':authority', b'example.com'), (b':path', b'/'), (b'X-Upper', b'1')],
    [(b':method', b'GET'), (b':scheme', b'https'), (b':authority', b'example.com'), (b':path', b'/'), (b'connection', b'close')],
    [(b':method', b'GET'), (b':scheme', b'https'), (b':authority', b'example.com'), (b':path', b'/'), (b'x-a', b' padded')],
]


def n_cases(tier):
    return 24000 if tier == 'quick' else 4000000


def run_case(idx, rng, tier, rep):
    mode = ('server', 'client', 'duet')[idx % 3]
    if mode == 'server':
        return server_case(idx, rng, rep)
    if mode == 'client':
        return client_case(idx, rng, rep)
    return duet_case(idx, rng, rep)


def conf(kind, headers):
    v, why = hdrmodel.conformant(kind, headers)
    return v, why


# ======================================================================================= server E
def server_case(idx, rng, rep):
    pp0 = rng.choice([1, 1, 1, 1, 0, None, None])
    h = scen.Hostile(False, peer_settings=[] if pp0 is None else [(wire.S_ENABLE_PUSH, pp0)])
    t = h.t
    st = {'alive': True, 'judged': False, 'pp': 1 if pp0 is None else pp0, 'changed': False}
    steps = []
    # parent model: sid -> {'e_ended','p_ended','reset','resp'}   (client-initiated streams)
    par = {}
    pushed = {}        # promised id -> 'reserved' | 'responded' | 'reset'
    dropped = set()    # parents on which a push was refused: state unknown from here on, never used again
    hi_e = [0]

    def witness():
        return {'mode': 'server', 'steps': [str(s) for s in steps[-14:]], 'peer_enable_push_as_delivered': st['pp'],
                'parents': {str(k): v for k, v in sorted(par.items())}, 'pushed': {str(k): v for k, v in sorted(pushed.items())},
                'log_tail': t.tail_log(4)}

    def fail(key, what, stop=True):
        rep.violation(key, what, witness())
        if stop:
            st['alive'] = False

    def deliver(data, what):
        res = h.send(data)
        if res.exc is not None:
            fail('C22:valid-peer-frame-refused:%s:%s' % (what, core.exc_key(res.exc)), repr(res.exc))
        return res

    def next_even():
        return hi_e[0] + 2 if hi_e[0] else 2

    def next_id_now():
        try:
            return t.c.get_next_available_stream_id()
        except Exception as e:        # noqa
            return type(e).__name__

    def push_attempt():
        kinds = ['live'] * 7 + ['any', 'idle', 'pushed']
        k = rng.choice(kinds)
        cand = None
        if k == 'live':
            c = [s for s, v in par.items() if not v['e_ended'] and not v['reset']]
            cand = rng.choice(sorted(c)) if c else None
        elif k == 'any':
            cand = rng.choice(sorted(par)) if par else None
        elif k == 'pushed':
            cand = rng.choice(sorted(pushed)) if pushed else None
        if cand is None:
            cand = h.peer_next if rng.random() < 0.7 else h.peer_next + 1     # never opened (odd), or an unused even id
            k = 'idle'
        if cand in dropped:
            return
        r0 = rng.random()
        promised_class = 'fresh'
        promised = next_even()
        if r0 < 0.03:
            promised = promised + 1
            promised_class = 'odd'
        elif r0 < 0.07 and hi_e[0]:
            promised = rng.choice(sorted(pushed)) if pushed else hi_e[0]
            promised_class = 'reused'
        elif r0 < 0.11:
            promised = promised + 2 * rng.randrange(1, 5)
        elif r0 < 0.12:
            promised = 2 ** 31 + 2
            promised_class = 'too-big'
        hkind = 'valid'
        headers = rng.choice(REQS)
        if rng.random() < 0.04:
            # a valid list whose encoded block is within a few octets of MAX_FRAME_SIZE, where the promised stream id in front of
            # the first fragment decides whether the block still fits one frame (octets with 8-bit Huffman codes: encoded
            # length = length)
            n = rng.randrange(16384 - 60, 16384 + 10)
            headers = list(REQS[0]) + [(b'x-big', bytes(rng.choice(b'XZ&*,;') for _ in range(32)) * (n // 32) + b'X' * (n % 32))]
            hkind = 'valid-near-frame-size'
            rep.count('server_push_blocks_near_frame_size')
        elif rng.random() < 0.08:
            headers = rng.choice(BAD_REQS)
            hkind = 'bad'
        elif rng.random() < 0.1:
            headers = rng.choice(BAD_INBOUND_ONLY)          # a sender normalises these: they are fine to push
            hkind = 'normalised-away'
        nf = [(n, v) for n, v, _ in hdrmodel.normal_form(headers)]
        verdict, why = conf('push', nf)
        reasons = []
        if st['pp'] != 1:
            reasons.append('push-disabled')
        if cand in pushed or (cand not in par and cand % 2 == 0):
            reasons.append('pushed-parent')
        elif cand not in par:
            reasons.append('parent-state')
        else:
            v = par[cand]
            if v['e_ended'] or v['reset']:
                reasons.append('parent-state')
        if verdict is False:
            reasons.append('bad-headers')
        if promised_class != 'fresh':
            reasons.append('bad-promised-id')
        steps.append(('push', cand, k, promised, promised_class, hkind, tuple(reasons)))
        before = next_id_now()
        r = t.call('push_stream', cand, promised, headers)
        if verdict is None and not reasons:
            rep.count('undetermined:header-list-' + why)
            if r.exc is None:
                pushed[promised] = 'reserved'
                hi_e[0] = promised
            return
        rep.count('server_push_judged')
        if st['changed']:
            rep.count('server_push_while_setting_changed_midway')
        if not reasons:
            rep.count('server_push_expected_ok')
            if r.exc is not None:
                return fail('C22:valid-push-refused:%s' % core.exc_key(r.exc),
                            'push_stream(%d, %d) raised %r although push is enabled, the parent is %r and the headers are valid' %
                            (cand, promised, r.exc, par.get(cand)))
            fr = r.frames
            ok_shape = (len(fr) >= 1 and fr[0].type == wire.PUSH_PROMISE and fr[0].stream_id == cand and fr[0].promised_id == promised and
                        all(f.type == wire.CONTINUATION and f.stream_id == cand for f in fr[1:]))
            if not ok_shape:
                return fail('C22:push-emission-shape', 'push_stream(%d, %d) emitted %s' % (cand, promised, [f.brief() for f in fr]))
            dec = h.decode_blocks(fr)
            rep.count('server_push_block_decoded')
            if len(dec) != 1 or isinstance(dec[0][1], Exception) or dec[0][1] != nf:
                return fail('C22:push-block-differs-from-headers', 'decoded %r, normal form of the call is %r' % (dec and dec[0][1], nf))
            pushed[promised] = 'reserved'
            hi_e[0] = promised
            return
        st['judged'] = True
        if r.exc is None:
            hi_e[0] = max(hi_e[0], promised)
            pushed[promised] = 'reserved'
            return fail('C22:push-accepted:%s' % '+'.join(reasons),
                        'push_stream(%d, %d) succeeded although %s; emitted %s' % (cand, promised, reasons, [f.brief() for f in r.frames]))
        if not isinstance(r.exc, h2.exceptions.ProtocolError):
            return fail('C22:push-refusal-wrong-exception:%s:%s' % ('+'.join(reasons), core.exc_key(r.exc)), repr(r.exc))
        if r.frames:
            return fail('C22:refused-push-emitted-frames:%s' % '+'.join(reasons), str([f.brief() for f in r.frames]))
        for x in reasons:
            rep.count('server_push_refused:' + x)
        if cand in par:
            # the library closes a stream on which it refused an action: no further expectations about this parent
            par.pop(cand)
            dropped.add(cand)
        if getattr(getattr(t.c.state_machine, 'state', None), 'name', '') == 'CLOSED':
            rep.count('refused_push_closed_the_connection')
            st['alive'] = False
            return
        after = next_id_now()
        if after != before:
            return fail('C22:refused-push-consumed-id:%s' % '+'.join(reasons),
                        'get_next_available_stream_id() moved from %r to %r across a refused push_stream' % (before, after))

    def peer_open():
        sid = h.peer_next
        h.peer_next += 2
        es = rng.random() < 0.4
        steps.append(('P-open', sid, es))
        deliver(wire.build_headers(sid, hb(scen.REQ), end_stream=es), 'HEADERS')
        if not es and st['alive'] and rng.random() < 0.25:
            # the request goes on with a body and ends with trailers: the stream is as good a parent as any
            steps.append(('P-body-and-trailers', sid))
            deliver(wire.build_data(sid, b'body'), 'DATA')
            deliver(wire.build_headers(sid, hb([(b'x-request-trailer', b'1')]), end_stream=True), 'HEADERS')
            es = True
            rep.count('parents_whose_request_ended_with_trailers')
        par[sid] = {'e_ended': False, 'p_ended': es, 'reset': False, 'resp': False}

    def mutate_parent():
        c = [s for s, v in par.items() if not v['reset']]
        if not c:
            return
        sid = rng.choice(sorted(c))
        v = par[sid]
        op = rng.choice(['resp', 'resp', 'e_end', 'p_end', 'rst_e', 'rst_p'])
        if op == 'resp' and not v['resp'] and not v['e_ended']:
            steps.append(('E-response', sid))
            r = t.call('send_headers', sid, RESP)
            if r.exc is not None:
                return fail('C22:valid-step-refused:send_headers:' + core.exc_key(r.exc), repr(r.exc))
            v['resp'] = True
        elif op == 'e_end' and not v['e_ended']:
            steps.append(('E-end', sid))
            if v['resp']:
                r = t.call('end_stream', sid)
            else:
                r = t.call('send_headers', sid, RESP, end_stream=True)
                v['resp'] = True
            if r.exc is not None:
                return fail('C22:valid-step-refused:end:' + core.exc_key(r.exc), repr(r.exc))
            v['e_ended'] = True
        elif op == 'p_end' and not v['p_ended'] and not (v['e_ended'] and False):
            steps.append(('P-end', sid))
            deliver(wire.build_data(sid, b'', end_stream=True), 'DATA')
            v['p_ended'] = True
        elif op == 'rst_e' and not (v['e_ended'] and v['p_ended']):
            steps.append(('E-rst', sid))
            r = t.call('reset_stream', sid, 8)
            if r.exc is not None:
                return fail('C22:valid-step-refused:reset_stream:' + core.exc_key(r.exc), repr(r.exc))
            v['reset'] = True
        elif op == 'rst_p' and not (v['e_ended'] and v['p_ended']):
            steps.append(('P-rst', sid))
            deliver(wire.build_rst(sid, 8), 'RST_STREAM')
            v['reset'] = True

    def toggle():
        v = rng.choice([0, 1])
        steps.append(('P-settings-enable-push', v))
        deliver(wire.build_settings([(wire.S_ENABLE_PUSH, v)]), 'SETTINGS')
        st['pp'] = v
        st['changed'] = True

    def use_promised():
        c = [s for s, v in pushed.items() if v == 'reserved']
        if not c:
            return
        sid = rng.choice(sorted(c))
        op = rng.choice(['respond', 'respond', 'client-headers', 'client-data', 'client-rst'])
        if op == 'respond':
            es = rng.random() < 0.5
            steps.append(('E-respond-on-promised', sid, es))
            r = t.call('send_headers', sid, RESP, end_stream=es)
            if r.exc is not None:
                return fail('C22:response-on-promised-stream-refused:' + core.exc_key(r.exc), repr(r.exc))
            pushed[sid] = 'responded'
        elif op == 'client-rst':
            steps.append(('P-rst-promised', sid))
            deliver(wire.build_rst(sid, 8), 'RST_STREAM')
            pushed[sid] = 'reset'
        else:
            # the client may not send HEADERS or DATA on a stream promised to it
            steps.append(('P-' + op + '-on-promised', sid))
            data = wire.build_headers(sid, hb(scen.REQ)) if op == 'client-headers' else wire.build_data(sid, b'zz')
            res = h.send(data)
            st['judged'] = True
            bad = [type(e).__name__ for e in res.events if isinstance(e, (h2.events.RequestReceived, h2.events.DataReceived,
                                                                          h2.events.ResponseReceived, h2.events.TrailersReceived))]
            refused = res.exc is not None or any(f.type == wire.RST_STREAM and f.stream_id == sid for f in res.frames)
            if bad or not refused:
                return fail('C22:client-frames-on-promised-stream-accepted:' + op,
                            '%s on promised stream %d: exc %r events %s frames %s' % (op, sid, res.exc, bad, [f.brief() for f in res.frames]))
            rep.count('server_frames_on_promised_stream_refused')
            if res.exc is not None:
                st['alive'] = False
            else:
                pushed[sid] = 'reset'

    def client_sends_promise():
        # a client can never push: PUSH_PROMISE received by a server is a connection error
        c = sorted(par) or [h.peer_next]
        sid = rng.choice(c)
        steps.append(('P-PUSH_PROMISE-from-client', sid))
        res = h.send(wire.build_push_promise(sid, rng.choice([2, 4, h.peer_next + 1, next_even()]), hb(REQS[0])))
        st['judged'] = True
        ev = [type(e).__name__ for e in res.events]
        if res.exc is None or not isinstance(res.exc, h2.exceptions.ProtocolError) or 'PushedStreamReceived' in ev:
            return fail('C22:server-accepted-PUSH_PROMISE', 'exc %r events %s' % (res.exc, ev))
        rep.count('server_received_promise_refused')
        st['alive'] = False

    for _ in range(rng.randrange(1, 4)):
        peer_open()
    for _ in range(rng.randrange(8, 45)):
        if not st['alive']:
            break
        op = rng.choice(['push'] * 8 + ['open'] * 3 + ['mutate'] * 2 + ['toggle'] + ['use'] * 3 + ['cpromise'])
        if op == 'push':
            push_attempt()
        elif op == 'open':
            peer_open()
        elif op == 'mutate':
            mutate_parent()
        elif op == 'toggle':
            toggle()
        elif op == 'use':
            use_promised()
        elif rng.random() < 0.15:
            client_sends_promise()
    if st['judged']:
        rep.nontrivial(('server',) + tuple(str(s) for s in steps))
    if idx % 999 == 0:
        rep.sample({'mode': 'server', 'steps': [str(s) for s in steps[:20]]})


# ======================================================================================= client E
def client_case(idx, rng, rep):
    e0 = rng.choice([None, None, None, 1, 1, 0])
    h = scen.Hostile(True, e_settings=None if e0 is None else {wire.S_ENABLE_PUSH: e0})
    t = h.t
    st = {'alive': True, 'judged': False, 'inforce': 1 if e0 is None else e0, 'pending': []}
    steps = []
    par = {}           # E-opened streams: sid -> {'e_ended','p_ended','reset_e','reset_p','resp'}
    pushed = {}        # promised id -> 'reserved' | 'responded' | 'done' | 'reset'
    hi_p = [0]

    def witness():
        return {'mode': 'client', 'steps': [str(s) for s in steps[-14:]], 'enable_push_in_force': st['inforce'],
                'unacknowledged_changes': list(st['pending']), 'parents': {str(k): v for k, v in sorted(par.items())},
                'pushed': {str(k): v for k, v in sorted(pushed.items())}, 'log_tail': t.tail_log(4)}

    def fail(key, what, stop=True):
        rep.violation(key, what, witness())
        if stop:
            st['alive'] = False

    def deliver(data, what):
        res = h.send(data)
        if res.exc is not None:
            fail('C22:valid-peer-frame-refused:%s:%s' % (what, core.exc_key(res.exc)), repr(res.exc))
        return res

    def e_open():
        sid = h.e_next
        h.e_next += 2
        es = rng.random() < 0.5
        steps.append(('E-open', sid, es))
        r = t.call('send_headers', sid, scen.REQ, end_stream=es)
        if r.exc is not None:
            return fail('C22:valid-step-refused:send_headers:' + core.exc_key(r.exc), repr(r.exc))
        if not es and rng.random() < 0.25:
            # the request goes on with a body and ends with trailers: pushes on it are as welcome as on any other stream
            steps.append(('E-body-and-trailers', sid))
            r = t.call('send_data', sid, b'body')
            if r.exc is None:
                r = t.call('send_headers', sid, [(b'x-request-trailer', b'1')], end_stream=True)
            if r.exc is not None:
                return fail('C22:valid-step-refused:request-trailers:' + core.exc_key(r.exc), repr(r.exc))
            es = True
            rep.count('parents_whose_request_ended_with_trailers')
        par[sid] = {'e_ended': es, 'p_ended': False, 'reset_e': False, 'reset_p': False, 'resp': False}

    def mutate_parent():
        c = [s for s, v in par.items() if not v['reset_e'] and not v['reset_p']]
        if not c:
            return
        sid = rng.choice(sorted(c))
        v = par[sid]
        closed = v['e_ended'] and v['p_ended']
        op = rng.choice(['resp', 'resp', 'p_end', 'e_end', 'e_end', 'rst_e', 'rst_e', 'rst_p'])
        if op == 'resp' and not v['resp'] and not v['p_ended']:
            steps.append(('P-response', sid))
            deliver(wire.build_headers(sid, hb(RESP)), 'HEADERS')
            v['resp'] = True
        elif op == 'p_end' and not v['p_ended']:
            steps.append(('P-end', sid))
            if v['resp']:
                deliver(wire.build_data(sid, b'', end_stream=True), 'DATA')
            else:
                deliver(wire.build_headers(sid, hb(RESP), end_stream=True), 'HEADERS')
                v['resp'] = True
            v['p_ended'] = True
        elif op == 'e_end' and not v['e_ended']:
            steps.append(('E-end', sid))
            r = t.call('end_stream', sid)
            if r.exc is not None:
                return fail('C22:valid-step-refused:end_stream:' + core.exc_key(r.exc), repr(r.exc))
            v['e_ended'] = True
        elif op == 'rst_e' and not closed:
            steps.append(('E-rst', sid))
            r = t.call('reset_stream', sid, 8)
            if r.exc is not None:
                return fail('C22:valid-step-refused:reset_stream:' + core.exc_key(r.exc), repr(r.exc))
            v['reset_e'] = True
        elif op == 'rst_p' and not closed:
            steps.append(('P-rst', sid))
            deliver(wire.build_rst(sid, 8), 'RST_STREAM')
            v['reset_p'] = True

    def change_setting():
        if len(st['pending']) >= 3:
            return
        v = rng.choice([0, 1, 0, 1, None])
        # None: a SETTINGS frame that does not mention ENABLE_PUSH (empty, or another setting only); it takes an ACK all the same
        new = {} if v is None else {wire.S_ENABLE_PUSH: v}
        if rng.random() < (0.5 if v is None else 0.2):
            new[wire.S_MAX_HEADER_LIST_SIZE] = rng.choice([65536, 100000])
        steps.append(('E-update-settings', sorted(new.items())))
        r = t.call('update_settings', new)
        if r.exc is not None:
            return fail('C22:valid-step-refused:update_settings:' + core.exc_key(r.exc), repr(r.exc))
        st['pending'].append(v)
        if v is None:
            rep.count('settings_frames_without_enable_push_in_flight')

    def ack():
        if not st['pending']:
            return
        steps.append(('P-settings-ack', st['pending'][0]))
        deliver(wire.build_settings(ack=True), 'SETTINGS-ACK')
        v = st['pending'].pop(0)
        if v is not None:
            st['inforce'] = v

    def build_promise(parent, promised, headers):
        block = hb(headers, rng.choice([hm.WITHOUT_INDEXING, hm.INCREMENTAL, hm.NEVER]))
        pad = rng.choice([None, None, 0, 7])
        if len(block) > 6 and rng.random() < 0.3:
            cut = rng.randrange(1, len(block))
            return wire.split_block(parent, block, [cut], lambda b, end_headers: wire.build_push_promise(parent, promised, b, end_headers=end_headers, pad=pad))
        return wire.build_push_promise(parent, promised, block, pad=pad)

    def promise():
        k = rng.choice(['live'] * 8 + ['any', 'any', 'idle', 'pushed'] + ['reset_e'] * 4)
        parent = None
        if k == 'reset_e':
            c = [s for s, v in par.items() if v['reset_e']]
            parent = rng.choice(sorted(c)) if c else None
            k = 'any'
        if k == 'live':
            c = [s for s, v in par.items() if not v['p_ended'] and not v['reset_e'] and not v['reset_p']]
            parent = rng.choice(sorted(c)) if c else None
        elif k == 'any':
            parent = rng.choice(sorted(par)) if par else None
        elif k == 'pushed':
            parent = rng.choice(sorted(pushed)) if pushed else None
        if parent is None:
            parent = h.e_next
            k = 'idle'
        fresh = hi_p[0] + 2 if hi_p[0] else 2
        promised, pclass = fresh, 'fresh'
        r0 = rng.random()
        if r0 < 0.02:
            promised, pclass = fresh + 1, 'odd'
        elif r0 < 0.04 and pushed:
            promised, pclass = rng.choice(sorted(pushed)), 'reused'
        elif r0 < 0.08:
            promised = fresh + 2 * rng.randrange(1, 6)
        headers, hkind = rng.choice(REQS), 'valid'
        r1 = rng.random()
        if r1 < 0.07:
            headers, hkind = rng.choice(BAD_REQS + BAD_INBOUND_ONLY), 'bad'
        verdict, why = conf('push', headers)
        reasons = []
        if pushed.get(parent) == 'reset':
            # a promised stream that E itself refused or reset: a further promise on it raced that reset and may simply be refused
            reasons.append('pushed-parent-reset-locally')
        elif parent in pushed or (parent not in par and parent % 2 == 0):
            reasons.append('pushed-parent')
        elif parent not in par:
            reasons.append('idle-parent')
        else:
            v = par[parent]
            if v['reset_e']:
                reasons.append('parent-reset-locally')
            elif v['reset_p']:
                reasons.append('parent-reset-by-peer')
            elif v['p_ended']:
                reasons.append('parent-ended-by-server')
        if pclass != 'fresh':
            reasons.append('bad-promised-id')
        if verdict is False:
            reasons.append('bad-headers')
        cleaned = bool(reasons) and rng.random() < 0.5
        if cleaned:
            h.cleanup()        # the closed parent is forgotten: the classification must not depend on that
            rep.count('client_promise_after_cleanup')
        steps.append(('P-PUSH_PROMISE', parent, k, promised, pclass, hkind, tuple(reasons), 'in-force=%d' % st['inforce'],
                      'pending=%s' % st['pending'], 'cleaned' if cleaned else ''))
        res = h.send(build_promise(parent, promised, headers))
        rep.count('client_promise_judged')
        evs = [e for e in res.events if isinstance(e, h2.events.PushedStreamReceived)]
        if st['pending']:
            rep.count('client_promise_while_change_in_flight')
        if st['inforce'] == 0:
            st['judged'] = True
            code = getattr(res.exc, 'error_code', None)
            goaway = [f for f in res.frames if f.type == wire.GOAWAY]
            if res.exc is None or evs or not isinstance(res.exc, h2.exceptions.ProtocolError) or int(code) != 1 or \
                    len(goaway) != 1 or goaway[0].error_code != 1:
                return fail('C22:promise-with-push-disabled-not-a-connection-error',
                            'ENABLE_PUSH in force is 0 (unacknowledged changes %s): exc %r, events %s, frames %s' %
                            (st['pending'], res.exc, [type(e).__name__ for e in res.events], [f.brief() for f in res.frames]))
            rep.count('client_promise_disabled_conn_error')
            st['alive'] = False
            return
        if not reasons and verdict is None:
            rep.count('undetermined:header-list-' + why)
            st['alive'] = False
            return
        if not reasons:
            if res.exc is not None:
                return fail('C22:valid-promise-refused:%s' % core.exc_key(res.exc),
                            'PUSH_PROMISE(%d -> %d) with push enabled (in force %d, pending %s) raised %r' %
                            (parent, promised, st['inforce'], st['pending'], res.exc))
            want = hdrmodel.inbound_delivery(headers, True)
            if len(evs) != 1 or len(res.events) != 1:
                return fail('C22:valid-promise-wrong-events', 'events %s' % [type(e).__name__ for e in res.events])
            e = evs[0]
            got = core.canon_headers(e.headers)
            if e.parent_stream_id != parent or e.pushed_stream_id != promised:
                return fail('C22:pushed-stream-event-wrong-ids', 'event parent=%r pushed=%r, frame %d -> %d' %
                            (e.parent_stream_id, e.pushed_stream_id, parent, promised))
            if got != want:
                return fail('C22:pushed-stream-event-wrong-headers', 'event %r, sent %r' % (got, want))
            if res.frames:
                return fail('C22:valid-promise-answered-with-frames', str([f.brief() for f in res.frames]))
            rep.count('client_promise_accepted')
            pushed[promised] = 'reserved'
            hi_p[0] = promised
            return
        st['judged'] = True
        if evs:
            return fail('C22:promise-accepted:%s' % '+'.join(reasons), 'PushedStreamReceived although %s' % reasons)
        if reasons == ['parent-reset-locally']:
            # in flight when E reset the parent: refuse the promised stream, keep the connection
            rsts = [f for f in res.frames if f.type == wire.RST_STREAM and f.stream_id == promised]
            if res.exc is not None or len(rsts) != 1 or res.events:
                return fail('C22:promise-on-locally-reset-parent-not-refused-quietly',
                            'exc %r frames %s events %s' % (res.exc, [f.brief() for f in res.frames], [type(e).__name__ for e in res.events]))
            rep.count('client_promise_refused_after_local_reset')
            rep.observe('refusal_code_after_local_reset', str(rsts[0].error_code))
            pushed[promised] = 'reset'
            hi_p[0] = max(hi_p[0], promised)
            return
        refused = res.exc is not None or any(f.type == wire.RST_STREAM for f in res.frames)
        must_be_connection_error = set(reasons) & {'idle-parent', 'parent-reset-by-peer', 'parent-ended-by-server', 'pushed-parent'}
        if must_be_connection_error and res.exc is None:
            # RFC 7540 6.6: a PUSH_PROMISE on a stream that is neither open nor half-closed (local) is a connection error; the only
            # leniency is a parent that this endpoint reset itself (the promise raced the reset)
            return fail('C22:promise-on-unusable-parent-not-a-connection-error:%s' % '+'.join(sorted(must_be_connection_error)),
                        'PUSH_PROMISE although %s (parent forgotten: %s): frames %s events %s' %
                        (reasons, cleaned, [f.brief() for f in res.frames], [type(e).__name__ for e in res.events]))
        if not refused:
            return fail('C22:promise-not-refused:%s' % '+'.join(reasons), 'no error for PUSH_PROMISE although %s; frames %s events %s' %
                        (reasons, [f.brief() for f in res.frames], [type(e).__name__ for e in res.events]))
        if res.exc is not None and not isinstance(res.exc, h2.exceptions.ProtocolError):
            return fail('C22:promise-refusal-wrong-exception:' + core.exc_key(res.exc), repr(res.exc))
        if 'pushed-parent' in reasons or 'pushed-parent-reset-locally' in reasons:
            rep.count('client_promise_on_pushed_stream_refused')
        if 'bad-headers' in reasons:
            rep.count('client_promise_bad_headers_refused')
        if set(reasons) & {'idle-parent', 'parent-reset-by-peer', 'parent-ended-by-server', 'parent-reset-locally'}:
            rep.count('client_promise_bad_parent_refused')
        rep.observe('refusal', '%s:%s' % ('+'.join(reasons), 'connection-error' if res.exc is not None else 'stream-error'))
        # whatever the reaction was, the history is no longer modelled
        st['alive'] = False

    def use_promised():
        c = [s for s, v in pushed.items() if v in ('reserved', 'responded')]
        if not c:
            return
        sid = rng.choice(sorted(c))
        state = pushed[sid]
        op = rng.choice(['respond'] * 8 + ['request-shaped', 'promise-on-it'])
        if op == 'respond':
            if state == 'reserved':
                es = rng.random() < 0.3
                steps.append(('P-response-on-promised', sid, es))
                res = deliver(wire.build_headers(sid, hb(RESP), end_stream=es), 'HEADERS-on-promised')
                if not st['alive']:
                    return
                names = [type(e).__name__ for e in res.events]
                if names[:1] != ['ResponseReceived'] or res.events[0].stream_id != sid:
                    return fail('C22:response-on-promised-stream-wrong-events', str(names))
                pushed[sid] = 'done' if es else 'responded'
            else:
                es = rng.random() < 0.5
                steps.append(('P-data-on-promised', sid, es))
                res = deliver(wire.build_data(sid, b'body', end_stream=es), 'DATA-on-promised')
                if not st['alive']:
                    return
                names = [type(e).__name__ for e in res.events]
                if names[:1] != ['DataReceived']:
                    return fail('C22:data-on-promised-stream-wrong-events', str(names))
                if es:
                    pushed[sid] = 'done'
            rep.count('client_promised_stream_response_accepted')
        elif op == 'request-shaped' and state == 'reserved':
            steps.append(('P-request-block-on-promised', sid))
            res = h.send(wire.build_headers(sid, hb(REQS[0])))
            st['judged'] = True
            ev = [type(e).__name__ for e in res.events if not isinstance(e, (h2.events.StreamReset,))]
            refused = res.exc is not None or any(f.type == wire.RST_STREAM and f.stream_id == sid for f in res.frames)
            if ev or not refused:
                return fail('C22:request-block-on-promised-stream-accepted', 'exc %r events %s' % (res.exc, ev))
            rep.count('client_promised_stream_request_refused')
            st['alive'] = False
        elif op == 'promise-on-it':
            steps.append(('P-PUSH_PROMISE-on-promised', sid))
            res = h.send(wire.build_push_promise(sid, (hi_p[0] or 0) + 2, hb(REQS[0])))
            st['judged'] = True
            rep.count('client_promise_judged')
            if st['inforce'] == 1:
                rep.count('client_promise_on_pushed_stream_refused')
            if res.exc is None or any(isinstance(e, h2.events.PushedStreamReceived) for e in res.events):
                return fail('C22:promise-accepted:pushed-parent', 'PUSH_PROMISE on promised stream %d: exc %r events %s' %
                            (sid, res.exc, [type(e).__name__ for e in res.events]))
            st['alive'] = False

    for _ in range(rng.randrange(1, 4)):
        e_open()
    for _ in range(rng.randrange(8, 45)):
        if not st['alive']:
            break
        op = rng.choice(['promise'] * 7 + ['open'] * 2 + ['mutate'] * 2 + ['change'] + ['ack'] * 2 + ['use'] * 5)
        if op == 'promise':
            promise()
        elif op == 'open':
            e_open()
        elif op == 'mutate':
            mutate_parent()
        elif op == 'change':
            change_setting()
        elif op == 'ack':
            ack()
        else:
            use_promised()
    if st['judged']:
        rep.nontrivial(('client',) + tuple(str(s) for s in steps))
    if idx % 999 == 1:
        rep.sample({'mode': 'client', 'steps': [str(s) for s in steps[:20]]})


# ======================================================================================= duet
def duet_case(idx, rng, rep):
    d = duet.Duet()
    d.handshake()
    st = {'alive': True, 'judged': False}
    steps = []
    # what the client has sent, with the c2s byte offset at which each item ends
    settings_sent = []        # (offset_end, value)
    req = {}                  # sid -> {'off': end offset of request, 'rst_off': end offset of client RST or None, 's_ended': bool, 's_reset': bool}
    pushes = []               # server-accepted pushes awaiting delivery: (s2c end offset, parent, promised, headers)
    client_acked = {'inforce': 1, 'unacked': []}      # client's own view: values awaiting the server's ACK
    next_c = [1]
    next_s = [2]

    def witness():
        return {'mode': 'duet', 'steps': [str(s) for s in steps[-16:]], 'c2s_delivered': d.delivered['c2s'], 's2c_delivered': d.delivered['s2c'],
                'settings_sent': settings_sent[-4:], 'client_log_tail': d.c.tail_log(3), 'server_log_tail': d.s.tail_log(3)}

    def fail(key, what):
        rep.violation(key, what, witness())
        st['alive'] = False

    def server_view_push():
        v = 1
        for off, val in settings_sent:
            if off <= d.delivered['c2s']:
                v = val
        return v

    def check_client_events(res):
        """Called after each delivery to the client."""
        if res is None:
            return
        if res.exc is not None:
            return fail('C22:duet:client-raised-on-server-output:' + core.exc_key(res.exc),
                        'client receive_data raised %r on bytes a real server produced' % (res.exc,))
        got = [e for e in res.events if isinstance(e, h2.events.PushedStreamReceived)]
        refused = [f.stream_id for f in res.frames if f.type == wire.RST_STREAM and f.error_code in (7, 8)]
        while pushes and pushes[0][0] <= d.delivered['s2c']:
            off, parent, promised, headers = pushes.pop(0)
            r = req[parent]
            if got and got[0].pushed_stream_id == promised:
                e = got.pop(0)
                want = hdrmodel.inbound_delivery([(n, v) for n, v, _ in hdrmodel.normal_form(headers)], True)
                if e.parent_stream_id != parent or core.canon_headers(e.headers) != want:
                    return fail('C22:duet:pushed-stream-event-differs', 'event parent %r headers %r; pushed on %d with %r' %
                                (e.parent_stream_id, core.canon_headers(e.headers), parent, want))
                rep.count('duet_push_delivered_and_matched')
            elif promised in refused and r['rst_called']:
                rep.count('duet_push_refused_after_client_reset')
            else:
                return fail('C22:duet:accepted-push-lost', 'push %d -> %d was accepted by the server and delivered, but the client '
                            'reported %s and emitted %s' % (parent, promised, [type(e).__name__ for e in res.events], [f.brief() for f in res.frames]))
        if got:
            return fail('C22:duet:unexpected-pushed-stream-event', 'PushedStreamReceived for %r without a matching push' % (got[0].pushed_stream_id,))

    def deliver(direction, n=None):
        res = d.deliver(direction, n)
        if res is None:
            return
        if direction == 's2c':
            check_client_events(res)
        elif res.exc is not None:
            fail('C22:duet:server-raised-on-client-output:' + core.exc_key(res.exc), repr(res.exc))

    for _ in range(rng.randrange(10, 50)):
        if not st['alive']:
            break
        op = rng.choice(['req'] * 3 + ['push'] * 6 + ['toggle'] * 2 + ['dc'] * 4 + ['ds'] * 4 + ['rst', 's_end'])
        if op == 'req':
            sid = next_c[0]
            next_c[0] += 2
            es = rng.random() < 0.5
            steps.append(('C-request', sid, es))
            r = d.call('c', 'send_headers', sid, scen.REQ, end_stream=es)
            if r.exc is not None:
                return fail('C22:duet:valid-step-refused:send_headers:' + core.exc_key(r.exc), repr(r.exc))
            req[sid] = {'off': d.sent['c2s'], 'rst_off': None, 'rst_called': False, 's_ended': False}
        elif op == 'toggle':
            v = rng.choice([0, 1, 0, 1, None])
            steps.append(('C-update-settings-enable-push', v))
            r = d.call('c', 'update_settings', {} if v is None else {wire.S_ENABLE_PUSH: v})
            if r.exc is not None:
                return fail('C22:duet:valid-step-refused:update_settings:' + core.exc_key(r.exc), repr(r.exc))
            if v is not None:
                settings_sent.append((d.sent['c2s'], v))
            else:
                rep.count('settings_frames_without_enable_push_in_flight')
        elif op == 'rst':
            c = [s for s, v in req.items() if not v['rst_called']]
            if c:
                sid = rng.choice(sorted(c))
                steps.append(('C-reset', sid))
                r = d.call('c', 'reset_stream', sid, 8)
                if r.exc is None:
                    req[sid]['rst_called'] = True
                    req[sid]['rst_off'] = d.sent['c2s']
        elif op == 's_end':
            c = [s for s, v in req.items() if v['off'] <= d.delivered['c2s'] and not v['s_ended'] and
                 not (v['rst_off'] is not None and v['rst_off'] <= d.delivered['c2s'])]
            if c:
                sid = rng.choice(sorted(c))
                steps.append(('S-respond-and-end', sid))
                r = d.call('s', 'send_headers', sid, RESP, end_stream=True)
                if r.exc is not None:
                    return fail('C22:duet:valid-step-refused:response:' + core.exc_key(r.exc), repr(r.exc))
                req[sid]['s_ended'] = True
        elif op == 'push':
            known = [s for s, v in req.items() if v['off'] <= d.delivered['c2s']]
            if not known:
                continue
            parent = rng.choice(sorted(known))
            v = req[parent]
            headers = rng.choice(REQS)
            promised = next_s[0]
            view = server_view_push()
            parent_ok = not v['s_ended'] and not (v['rst_off'] is not None and v['rst_off'] <= d.delivered['c2s'])
            in_flight = any(off > d.delivered['c2s'] for off, _ in settings_sent)
            steps.append(('S-push', parent, promised, 'server-view-enable-push=%d' % view, 'parent-ok' if parent_ok else 'parent-not-pushable',
                          'setting-in-flight' if in_flight else ''))
            r = d.call('s', 'push_stream', parent, promised, headers)
            if view == 1 and parent_ok:
                if r.exc is not None:
                    return fail('C22:duet:valid-push-refused:' + core.exc_key(r.exc),
                                'push_stream(%d, %d) raised %r; every SETTINGS frame that reached the server so far leaves push enabled' %
                                (parent, promised, r.exc))
                next_s[0] += 2
                pushes.append((d.sent['s2c'], parent, promised, headers))
                if in_flight:
                    rep.count('duet_push_in_flight_setting_change')
            else:
                st['judged'] = True
                if r.exc is None:
                    return fail('C22:duet:push-accepted:%s' % ('push-disabled' if view != 1 else 'parent-state'),
                                'push_stream(%d, %d) succeeded; server view of ENABLE_PUSH %d, parent %r' % (parent, promised, view, v))
                if not isinstance(r.exc, h2.exceptions.ProtocolError) or r.frames:
                    return fail('C22:duet:push-refusal-shape:' + core.exc_key(r.exc), 'exc %r frames %s' % (r.exc, [f.brief() for f in r.frames]))
                rep.count('duet_push_refused_by_server_as_expected')
                if getattr(getattr(d.s.c.state_machine, 'state', None), 'name', '') == 'CLOSED':
                    rep.count('refused_push_closed_the_connection')
                    st['alive'] = False
        elif op == 'dc':
            n = rng.choice([None, None, 1, rng.randrange(1, 40)])
            deliver('c2s', n)
        else:
            n = rng.choice([None, None, 1, rng.randrange(1, 40)])
            deliver('s2c', n)
    # drain
    for _ in range(6):
        if not st['alive']:
            break
        deliver('c2s')
        if st['alive']:
            deliver('s2c')
    if st['alive'] and pushes:
        fail('C22:duet:accepted-push-never-arrived', 'pushes still undelivered after draining: %r' % [(p[1], p[2]) for p in pushes])
    if st['judged']:
        rep.nontrivial(('duet',) + tuple(str(s) for s in steps))
    if idx % 999 == 2:
        rep.sample({'mode': 'duet', 'steps': [str(s) for s in steps[:20]]})
