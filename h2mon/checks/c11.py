"""C11 - settings take effect exactly when acknowledged, one frame per ACK, in order.

A shadow model keeps the FIFO of SETTINGS frames E successfully sent (initial
frame included) and the values in force on both sides.  Every delivered SETTINGS
frame must be answered by exactly one ACK and one RemoteSettingsChanged with the
right old/new values; the k-th delivered ACK must report exactly frame k's
changes; behaviour probes on deep-copied clones measure the values actually in
force (inbound MAX_FRAME_SIZE, MAX_HEADER_LIST_SIZE, MAX_CONCURRENT_STREAMS,
ENABLE_PUSH, INITIAL_WINDOW_SIZE, HEADER_TABLE_SIZE) before and after each ACK;
a raising update_settings must leave no trace.
"""
import h2.exceptions

from .. import core, scen, wire, hpackmini as hm
from ..scen import REQ, RESP, hb

LEVEL = 'exploration'
RULE = ('each case = 10-40 steps on one endpoint: update_settings with one or many keys (valid, or one invalid value among '
        'valid ones placed first/middle/last), 0-4 SETTINGS frames in flight incl. an update before the initial ACK, ACKs '
        'delivered at arbitrary later steps, received SETTINGS with known / unknown (0,7,9..0xffff) / duplicate ids, traffic in '
        'between (streams with used send windows and promised streams present when the peer changes INITIAL_WINDOW_SIZE); 8% of the cases are '
        'servers upgraded from HTTP/1.1 whose HTTP2-Settings header must be in force at once; in-force values measured by behaviour probes on clones right before and after every ACK; non-trivial = at '
        'least one ACK event and one probe set judged; distinct = hash of the step list')
MINIMA = {'ack_events_judged': 3000, 'remote_settings_events_judged': 3000, 'probe_sets': 3000, 'raising_updates_judged': 800,
          'multi_frame_in_flight_acks': 800, 'same_key_twice_in_flight': 200, 'empty_updates_sent': 300,
          'reserved_stream_present_at_remote_settings': 150, 'stream_send_window_expected_negative': 40,
          'upgrade_settings_headers_judged': 100}

DEFAULT_LOCAL = {1: 4096, 3: 100, 4: 65535, 5: 16384, 6: 65536, 8: 0}
VALUES = {1: [0, 100, 4096, 8192], 2: [0, 1], 3: [0, 1, 2, 3, 5], 4: [0, 1, 1000, 40000, 65535], 5: [16384, 16385, 20000, 40000],
          6: [0, 100, 5000, 65536, 70000], 8: [0, 1]}
INVALID = {2: [2, 3], 4: [2 ** 31, 2 ** 32 - 1], 5: [0, 16383, 2 ** 24], 8: [2, 7]}


def n_cases(tier):
    return 2500 if tier == 'quick' else 150000


def probe(h, model, rep, fail, when):
    """Measure the locally governed values in force on clones of E and compare with the model."""
    e_client = h.e_client
    rep.count('probe_sets')
    # a conforming peer encoder acknowledges a lowered HEADER_TABLE_SIZE at the start of its next block
    pre = hm.table_size_update(min(model[1], 4096))

    def clone():
        return h.t.clone()

    # inbound MAX_FRAME_SIZE
    v = model[5]
    r1 = clone().call('receive_data', wire.raw_frame(0x50, 0, 0, b'\0' * v))
    r2 = clone().call('receive_data', wire.raw_frame(0x50, 0, 0, b'\0' * (v + 1)))
    if r1.exc is not None or not isinstance(r2.exc, h2.exceptions.FrameTooLargeError):
        return fail('C11:in-force-value-differs:MAX_FRAME_SIZE:%s' % when,
                    'model says inbound MAX_FRAME_SIZE %d is in force; frame of %d -> %s, frame of %d -> %s' %
                    (v, v, type(r1.exc).__name__ if r1.exc else 'accepted', v + 1, type(r2.exc).__name__ if r2.exc else 'accepted'))
    # MAX_HEADER_LIST_SIZE
    v = model[6]
    base = RESP if e_client else REQ
    size0 = hm.header_list_size(base)

    def hdr_probe(target):
        c = clone()
        if e_client:
            sid = h.e_next
            r0 = c.call('send_headers', sid, REQ)
            if r0.exc is not None:
                return 'skip'
        else:
            sid = h.peer_next
        if target < size0 + 33:
            hs = base
            if hm.header_list_size(hs) <= v:
                return 'skip'
        else:
            hs = base + [(b'x-f', b'f' * (target - size0 - 35))]
        block = pre + hb(hs)
        data = b''
        pos = 0
        first = True
        while first or pos < len(block):
            part = block[pos:pos + 16000]
            pos += 16000
            last = pos >= len(block)
            data += wire.build_headers(sid, part, end_headers=last) if first else wire.build_continuation(sid, part, end_headers=last)
            first = False
        r = c.call('receive_data', data)
        return r
    try:
        room = e_client or (model[3] - h.c.open_inbound_streams) > 0
    except Exception:      # noqa
        room = False
    if len(h.c.streams) < 90 and room:
        ra = hdr_probe(v)
        rb = hdr_probe(v + 1)
        if ra != 'skip' and rb != 'skip':
            ok_a = ra.exc is None or (isinstance(ra.exc, h2.exceptions.ProtocolError) and int(ra.exc.error_code) != wire.ENHANCE_YOUR_CALM)
            ok_b = rb.exc is not None and int(getattr(rb.exc, 'error_code', -1)) == wire.ENHANCE_YOUR_CALM
            if isinstance(ra.exc, h2.exceptions.TooManyStreamsError) or isinstance(rb.exc, h2.exceptions.TooManyStreamsError):
                ok_a = ok_b = True       # another limit answered first: probe not applicable
            if v >= size0 + 33 and not (ok_a and ok_b):
                return fail('C11:in-force-value-differs:MAX_HEADER_LIST_SIZE:%s' % when,
                            'model says MAX_HEADER_LIST_SIZE %d is in force; list of %d -> %s, list of %d -> %s' %
                            (v, v, type(ra.exc).__name__ if ra.exc else 'accepted', v + 1, type(rb.exc).__name__ if rb.exc else 'accepted'))
    # ENABLE_PUSH (clients only)
    if e_client:
        c = clone()
        sid = h.e_next
        r0 = c.call('send_headers', sid, REQ)
        if r0.exc is None:
            r = c.call('receive_data', wire.build_push_promise(sid, h.peer_next, pre + hb(REQ)))
            accepted = r.exc is None
            if isinstance(r.exc, h2.exceptions.DenialOfServiceError):
                accepted = bool(model[2])       # header-list limit answered first: probe not applicable
            if accepted != bool(model[2]):
                return fail('C11:in-force-value-differs:ENABLE_PUSH:%s' % when,
                            'model says ENABLE_PUSH %d is in force; PUSH_PROMISE -> %s' % (model[2], 'accepted' if accepted else type(r.exc).__name__))
    # INITIAL_WINDOW_SIZE: window of a stream created now
    c = clone()
    if e_client:
        sid = h.e_next
        r0 = c.call('send_headers', sid, REQ)
    else:
        sid = h.peer_next
        r0 = c.call('receive_data', wire.build_headers(sid, pre + hb(REQ)))
    if r0.exc is None:
        rw = c.call('remote_flow_control_window', sid)
        cw = getattr(c.c, 'inbound_flow_control_window', 65535)
        if rw.exc is None and rw.value != min(cw, model[4]):
            return fail('C11:in-force-value-differs:INITIAL_WINDOW_SIZE:%s' % when,
                        'model says INITIAL_WINDOW_SIZE %d is in force; a new stream advertises %r' % (model[4], rw.value))
    # MAX_CONCURRENT_STREAMS (servers: how many more peer streams are accepted)
    if not e_client and model[3] <= 8:
        c = clone()
        open_now = None
        try:
            open_now = c.c.open_inbound_streams
        except Exception:      # noqa
            pass
        if open_now is not None:
            accepted = 0
            sid = h.peer_next
            for _ in range(model[3] + 2):
                r = c.call('receive_data', wire.build_headers(sid, pre + hb(REQ)))
                if r.exc is not None and not isinstance(r.exc, h2.exceptions.TooManyStreamsError):
                    accepted = None          # another limit (header list size ...) answered first: probe not applicable
                    break
                if r.exc is not None or any(f.type == wire.RST_STREAM and f.stream_id == sid for f in r.frames):
                    break
                accepted += 1
                sid += 2
            want = max(0, model[3] - open_now)
            if accepted is not None and accepted != want:
                return fail('C11:in-force-value-differs:MAX_CONCURRENT_STREAMS:%s' % when,
                            'model says MAX_CONCURRENT_STREAMS %d is in force with %d open; %d further streams accepted' %
                            (model[3], open_now, accepted))
    # HEADER_TABLE_SIZE: largest dynamic table size update the decoder accepts
    v = model[1]
    for size, must_accept in ((v, True), (v + 1, False)):
        c = clone()
        if e_client:
            sid = h.e_next
            r0 = c.call('send_headers', sid, REQ)
            if r0.exc is not None:
                break
            blk = hm.table_size_update(size) + hb(RESP)
        else:
            sid = h.peer_next
            blk = hm.table_size_update(size) + hb(REQ)
        r = c.call('receive_data', wire.build_headers(sid, blk))
        hpack_refused = (r.exc is not None and core.exc_key(r.exc).endswith(':_decode_headers') and
                         not isinstance(r.exc, h2.exceptions.DenialOfServiceError))
        if isinstance(r.exc, (h2.exceptions.TooManyStreamsError, h2.exceptions.DenialOfServiceError)):
            break                            # another limit answered first: probe not applicable
        if hpack_refused == must_accept:
            # a pending (announced, not yet acknowledged) reduction must also be signalled first by the peer: skip then
            return fail('C11:in-force-value-differs:HEADER_TABLE_SIZE:%s' % when,
                        'model says HEADER_TABLE_SIZE %d is in force; dynamic table size update to %d -> %s' %
                        (v, size, 'refused by the decoder' if hpack_refused else 'accepted by the decoder'))
    return True


def run_upgrade_case(rng, rep):
    """The settings in an HTTP2-Settings header are a SETTINGS frame like any other: in force, with everything derived from
    them, as soon as initiate_upgrade_connection returns."""
    import base64
    import hpack
    import struct
    keys = rng.sample([1, 3, 4, 5, 6], rng.choice([1, 2, 3, 5]))
    pairs = [(k, rng.choice(VALUES[k])) for k in keys]
    if rng.random() < 0.3:
        pairs.append((rng.choice([9, 0x7f]), 5))
    payload = b''.join(struct.pack('>HI', k, v) for k, v in pairs)
    header = base64.urlsafe_b64encode(payload).rstrip(b'=')
    t = core.Tap(core.make_conn(False), keep_log=True)
    r = t.call('initiate_upgrade_connection', header)
    w = {'settings_in_header': pairs, 'log_tail': t.tail_log(3)}
    if r.exc is not None:
        rep.violation('C11:upgrade-settings-rejected:' + core.exc_key(r.exc), repr(r.exc), w)
        return
    rep.count('upgrade_settings_headers_judged')
    rep.nontrivial(('upgrade', tuple(pairs)))
    got = dict(DEFAULT_LOCAL)
    got.pop(3)
    got.update(dict(pairs))
    for k, v in dict(pairs).items():
        try:
            cur = t.c.remote_settings[k]
        except Exception as e:      # noqa
            cur = repr(e)
        if cur != v:
            rep.violation('C11:remote-setting-not-applied-at-once', 'remote_settings[%d] == %r right after the upgrade carried %d' % (k, cur, v), w)
            return
    mfs, iws, hts = got[5], got[4], got[1]
    if getattr(t.c, 'max_outbound_frame_size', mfs) != mfs:
        rep.violation('C11:max_outbound_frame_size-not-switched', 'max_outbound_frame_size %r after an upgrade with MAX_FRAME_SIZE %d' %
                      (t.c.max_outbound_frame_size, mfs), w)
        return
    # behaviour: the response on stream 1, sized by the client's limits, goes out right now
    hs = RESP + [(b'x-upgraded', b'1')]
    r = t.call('send_headers', 1, hs)
    if r.exc is not None:
        rep.violation('C11:upgrade:response-refused:' + core.exc_key(r.exc), repr(r.exc), w)
        return
    mdec = hpack.Decoder()
    mdec.max_allowed_table_size = hts
    blk = b''.join(f.data or b'' for f in r.frames if f.type in (wire.HEADERS, wire.CONTINUATION))
    try:
        dec = [(bytes(n), bytes(v)) for n, v in mdec.decode(blk, raw=True)]
    except Exception as e:      # noqa
        rep.violation('C11:in-force-value-differs:HEADER_TABLE_SIZE:after-upgrade',
                      'first block after an upgrade with HEADER_TABLE_SIZE %d does not decode under that limit: %r' % (hts, e), w)
        return
    if dec != hs:
        rep.violation('C11:upgrade:response-block-wrong', 'decoded %r' % dec, w)
        return
    n = min(mfs, iws, 65535)
    if n > 0:
        r = t.call('send_data', 1, b'u' * n)
        df = [f for f in r.frames if f.type == wire.DATA]
        if r.exc is not None or len(df) != 1 or df[0].length != n:
            rep.violation('C11:in-force-value-differs:%s:after-upgrade' % ('MAX_FRAME_SIZE' if isinstance(r.exc, h2.exceptions.FrameTooLargeError)
                                                                          else 'INITIAL_WINDOW_SIZE' if r.exc else 'MAX_FRAME_SIZE'),
                          'send_data(1, %d octets) after an upgrade with MAX_FRAME_SIZE %d, INITIAL_WINDOW_SIZE %d: exc %r, frames %s' %
                          (n, mfs, iws, r.exc, [f.brief() for f in r.frames]), w)
            return
    if iws < 65535:
        lw = t.call('local_flow_control_window', 1)
        if lw.exc is not None or lw.value != iws - n:
            rep.violation('C11:in-force-value-differs:INITIAL_WINDOW_SIZE:after-upgrade', 'local_flow_control_window(1) = %r, expected %d' %
                          (lw.value if lw.exc is None else lw.exc, iws - n), w)


def run_case(idx, rng, tier, rep):
    if rng.random() < 0.08:
        return run_upgrade_case(rng, rep)
    e_client = rng.random() < 0.5
    h = scen.Hostile(e_client, keep_log=True, handshake=False)
    t = h.t
    t.scramble = rng.random() < 0.5      # the application reuses the dict it passed to update_settings
    steps = []
    st = {'alive': True}

    def fail(key, what):
        rep.violation(key, what, {'role': 'client' if e_client else 'server', 'steps': [str(s) for s in steps[-14:]],
                                  'log_tail': t.tail_log(4)})
        st['alive'] = False
        return False

    local = dict(DEFAULT_LOCAL)
    local[2] = int(e_client)
    remote = {1: 4096, 2: int(not e_client), 4: 65535, 5: 16384, 8: 0}      # values of the peer in force at E
    fifo = []         # frames E sent and not yet acknowledged: list of ordered (id, value) pairs
    r = t.call('initiate_connection')
    fifo.append('initial')
    early_update = rng.random() < 0.25
    same_key_mode = rng.random() < 0.45      # all frames of this case touch one and the same key
    the_key = rng.choice([1, 3, 4, 5, 6] + ([2] if e_client else []))
    h.send((b'' if e_client else wire.PREFACE) + wire.build_settings([]))
    steps.append('handshake')
    diverged = False

    def do_update(invalid=False):
        if same_key_mode:
            keys = [the_key]
        else:
            keys = rng.sample([1, 3, 4, 5, 6] + ([2] if e_client else [8]), rng.choice([1, 1, 2, 3]))
        d = [(k, rng.choice(VALUES[k])) for k in keys]
        if not invalid and rng.random() < 0.08:
            # an empty SETTINGS frame is a frame like any other: it is acknowledged, and its ACK applies nothing
            d = []
            rep.count('empty_updates_sent')
        if invalid:
            bad_k = rng.choice([k for k in INVALID if (k != 2 or e_client)])
            bad = (bad_k, rng.choice(INVALID[bad_k]))
            d = [p for p in d if p[0] != bad_k]
            d.insert(rng.choice([0, len(d) // 2, len(d)]), bad)
        before = snapshot(h)
        if 'initial' in fifo and not invalid:
            st['update_before_initial_ack'] = True
        res = t.call('update_settings', dict(d))
        steps.append(('update_settings', d, 'invalid' if invalid else ''))
        if invalid:
            rep.count('raising_updates_judged')
            if res.exc is None:
                return fail('C11:invalid-update-accepted', 'update_settings(%s) returned normally' % d)
            if res.frames:
                return fail('C11:raising-update-emitted', 'raising update_settings emitted %s' % [f.brief() for f in res.frames])
            after = snapshot(h)
            if after != before:
                diff = [k for k in before if before[k] != after.get(k)]
                return fail('C11:raising-update-left-trace:%s' % ('pending-values' if 'pending' in diff else 'in-force-values'),
                            'update_settings(%s) raised %s but changed %s: %s -> %s' %
                            (d, type(res.exc).__name__, diff, [before[k] for k in diff], [after.get(k) for k in diff]))
            return True
        if res.exc is not None:
            return fail('C11:valid-update-refused', 'update_settings(%s) raised %r' % (d, res.exc))
        sf = [f for f in res.frames if f.type == wire.SETTINGS and not f.ack]
        if len(sf) != 1 or len(res.frames) != 1:
            return fail('C11:update-emission-wrong', 'update_settings emitted %s' % [f.brief() for f in res.frames])
        # the frame carries what the call said - all of it, also values equal to the ones in force or to ones still in flight:
        # the peer applies frames, not differences
        rep.count('update_frames_compared_with_the_call')
        if sorted(sf[0].settings) != sorted(dict(d).items()):
            return fail('C11:update-frame-differs-from-call', 'update_settings(%s) emitted SETTINGS %s' % (d, sf[0].settings))
        if any(k == kk for fr in fifo if fr != 'initial' for kk, _ in fr for k, _ in d):
            rep.count('same_key_twice_in_flight')
        fifo.append(d)
        return True

    def do_ack():
        nonlocal diverged
        if not fifo:
            return True
        if not diverged and probe(h, local, rep, fail, 'before-ack') is False:
            return False
        frame = fifo.pop(0)
        if fifo:
            rep.count('multi_frame_in_flight_acks')
        res = h.send(wire.build_settings(ack=True))
        steps.append(('settings-ack', frame))
        if res.exc is not None:
            return fail('C11:settings-ack-rejected', 'SETTINGS ACK raised %r' % res.exc)
        evs = [e for e in res.events if type(e).__name__ == 'SettingsAcknowledged']
        if len(evs) != 1:
            return fail('C11:ack-event-count-%d' % len(evs), 'one SETTINGS ACK produced %d SettingsAcknowledged events' % len(evs))
        got = {int(k): (cs.original_value, cs.new_value) for k, cs in evs[0].changed_settings.items()}
        if frame == 'initial':
            want = {}
        else:
            want = {}
            for k, v in frame:
                want[k] = (local.get(k), v)
        if diverged:
            return True
        rep.count('ack_events_judged')
        later = {}
        for fr in fifo:
            if fr != 'initial':
                for k, v in fr:
                    later.setdefault(k, v)
        if frame == 'initial':
            # the initial frame's values are in force from the start: echoes (original == new) of keys that no later
            # frame touches are accepted; anything that belongs to a later frame is judged below
            want = {}
            got = {k: v for k, v in got.items() if k in later or v[0] != v[1]}
        ok = got == want
        if not ok:
            extra = {k: v for k, v in got.items() if k not in want}
            missing = {k: v for k, v in want.items() if k not in got}
            common_bad = {k for k in got if k in want and got[k] != want[k]}
            if extra and not missing and not common_bad and all(k in later and later[k] == extra[k][1] for k in extra):
                # the acknowledgement of frame k also applied (and reported) changes carried by later frames
                diverged = True
                # two mechanisms: the acknowledgement of the *initial* frame (whose values are in force from the start) picking
                # up the first update_settings sent before it arrived, and - repaired in the library - any acknowledgement
                # picking up values of a later update_settings
                # (an update sent while the initial frame is still unacknowledged shifts every later acknowledgement by one frame,
                # so the remainder can also show at a later ACK of the same history)
                key = ('C11:ack-of-initial-frame-applies-first-update-sent-before-it' if frame == 'initial' or st.get('update_before_initial_ack')
                       else 'C11:ack-applies-pending-changes-of-later-frames')
                rep.violation(key,
                              'ACK of frame %s reported %s: changes %s belong to SETTINGS frames sent later' % (frame, got, extra),
                              {'role': 'client' if e_client else 'server', 'steps': [str(s) for s in steps[-10:]]})
                st['alive'] = False
                return False
            return fail('C11:ack-event-differs:%s' % ('value-mismatch' if common_bad else 'missing-changes' if missing else 'extra-changes'),
                        'ACK of frame %s reported %s, expected %s' % (frame, got, want))
        if frame != 'initial':
            for k, v in frame:
                local[k] = v
        if probe(h, local, rep, fail, 'after-ack') is False:
            return False
        return True

    def do_remote():
        ids = rng.sample([1, 2, 3, 4, 5, 6, 8, 0, 7, 9, 0x10, 0xffff, rng.randrange(9, 2 ** 16)], rng.choice([1, 1, 2, 3, 4]))
        pairs = []
        for k in ids:
            if k == 2:
                v = 0 if e_client else rng.choice([0, 1])
            elif k in VALUES:
                v = rng.choice(VALUES[k])
            else:
                v = rng.choice([0, 1, 2 ** 32 - 1, 12345])
            pairs.append((k, v))
        if rng.random() < 0.2 and pairs:
            k = pairs[0][0]
            pairs.append((k, rng.choice(VALUES.get(k, [5, 6])) if k != 2 else pairs[0][1]))     # duplicate id: last wins
        # send windows of every stream that still has one (open, half-closed (remote) and streams E has promised but not
        # started), read before and after: a new INITIAL_WINDOW_SIZE moves all of them by the difference, at once
        room = False
        try:
            room = h.c.open_inbound_streams + 1 <= h.c.local_settings.max_concurrent_streams and \
                h.c.open_outbound_streams + 1 <= h.c.remote_settings.max_concurrent_streams
        except Exception:       # noqa
            pass
        # (same guards as traffic(): the request must fit E's acknowledged limits, and no change of them may be in flight)
        quiet = local[6] >= 200 and not any(fr != 'initial' and any(k in (3, 6) for k, _ in fr) for fr in fifo)
        if not e_client and room and quiet and rng.random() < 0.3 and getattr(h.c.remote_settings, 'enable_push', 0):
            try:
                h.block_prefix = hm.table_size_update(min(local[1], 4096))      # (the peer follows E's acknowledged table size)
                par = h.reach('open')
                if h.t.call('push_stream', par, h.e_next, REQ).ok:
                    h.e_next += 2
                    rep.count('reserved_stream_present_at_remote_settings')
            except AssertionError:
                pass
        try:
            room = h.c.open_inbound_streams + 1 <= h.c.local_settings.max_concurrent_streams and \
                h.c.open_outbound_streams + 1 <= h.c.remote_settings.max_concurrent_streams
        except Exception:       # noqa
            room = False
        if room and quiet and rng.random() < 0.3:
            # a stream on which E has already used part (or most) of its send window: a lowered INITIAL_WINDOW_SIZE may take that
            # window below zero (RFC 7540 6.9.2), which is where it has to be afterwards
            try:
                h.block_prefix = hm.table_size_update(min(local[1], 4096))
                sid1 = h.reach('open')
                ok1 = True
                if not e_client:
                    ok1 = t.call('send_headers', sid1, RESP).ok
                left = rng.choice([100, 16384, 40000, 65535])
                while ok1 and left > 0:
                    n = min(left, remote.get(5, 16384), t.call('local_flow_control_window', sid1).value or 0)
                    if n <= 0:
                        break
                    ok1 = t.call('send_data', sid1, b'w' * n).ok
                    left -= n
                rep.count('stream_with_used_send_window_at_remote_settings')
            except AssertionError:
                pass
        win_before = {}
        for sid0, sobj in list(getattr(h.c, 'streams', {}).items()):
            stn = getattr(getattr(getattr(sobj, 'state_machine', None), 'state', None), 'name', '')
            if stn in ('OPEN', 'HALF_CLOSED_REMOTE', 'RESERVED_LOCAL'):
                win_before[sid0] = getattr(sobj, 'outbound_flow_control_window', None)
        iws_before = remote.get(4, 65535)
        res = h.send(wire.build_settings(pairs))
        steps.append(('remote-settings', pairs))
        if res.exc is not None:
            if 4 in dict(pairs) and any(w is not None and w + dict(pairs)[4] - iws_before > 2 ** 31 - 1 for w in win_before.values()):
                st['alive'] = False          # a window would overflow: that rejection is C12's question
                return True
            return fail('C11:valid-remote-settings-rejected', 'SETTINGS %s raised %r' % (pairs, res.exc))
        if 4 in dict(pairs):
            delta = dict(pairs)[4] - iws_before
            for sid0, wb in win_before.items():
                sobj = getattr(h.c, 'streams', {}).get(sid0)
                wa = getattr(sobj, 'outbound_flow_control_window', None)
                if wb is None or wa is None:
                    continue
                rep.count('stream_send_windows_checked_after_remote_iws')
                if wb + delta < 0:
                    rep.count('stream_send_window_expected_negative')
                if wa != wb + delta:
                    stn = getattr(getattr(getattr(sobj, 'state_machine', None), 'state', None), 'name', '?')
                    return fail('C11:remote-initial-window-size-not-applied-to-stream:%s' % stn,
                                'stream %d (%s) send window %d -> %d after INITIAL_WINDOW_SIZE %d -> %d' %
                                (sid0, stn, wb, wa, iws_before, dict(pairs)[4]))
        rep.count('remote_settings_events_judged')
        acks = [f for f in res.frames if f.type == wire.SETTINGS and f.ack]
        if len(acks) != 1 or len(res.frames) != 1:
            return fail('C11:remote-settings-ack-count-%d' % len(acks), 'one SETTINGS frame answered with %s' % [f.brief() for f in res.frames])
        evs = [e for e in res.events if type(e).__name__ == 'RemoteSettingsChanged']
        if len(evs) != 1:
            return fail('C11:remote-settings-event-count-%d' % len(evs), '%d RemoteSettingsChanged events' % len(evs))
        final = {}
        for k, v in pairs:
            final[k] = v
        want = {k: (remote.get(k), v) for k, v in final.items()}
        got = {int(k): (cs.original_value, cs.new_value) for k, cs in evs[0].changed_settings.items()}
        if got != want:
            bad = [k for k in set(got) | set(want) if got.get(k) != want.get(k)]
            kind = 'unknown-id' if all(k not in VALUES for k in bad) else 'known-id'
            return fail('C11:remote-settings-event-differs:%s' % kind, 'RemoteSettingsChanged %s, expected %s' % (got, want))
        remote.update(final)
        # applied at once
        for k, v in final.items():
            try:
                cur = h.c.remote_settings[k]
            except Exception as e:      # noqa
                cur = repr(e)
            if cur != v:
                return fail('C11:remote-setting-not-applied-at-once', 'remote_settings[%d] == %r right after delivery of %d' % (k, cur, v))
        if 5 in final and getattr(h.c, 'max_outbound_frame_size', final[5]) != final[5]:
            return fail('C11:max_outbound_frame_size-not-switched', 'max_outbound_frame_size %r after SETTINGS MAX_FRAME_SIZE %d' %
                        (h.c.max_outbound_frame_size, final[5]))
        return True

    def traffic():
        steps.append('traffic')
        h.block_prefix = hm.table_size_update(min(local[1], 4096))
        if e_client:
            sid, r = h.e_request(end_stream=True)
            if r.ok:
                r = h.peer_headers(sid, RESP, end_stream=True)
                if not r.ok:
                    st['alive'] = False      # (e.g. header list limit 0 in force): legitimate, ends the case
        else:
            try:
                room = local[3] - h.c.open_inbound_streams
            except Exception:      # noqa
                room = 0
            if room <= 0 or local[6] < 200 or any(fr != 'initial' and any(k in (3, 6) for k, _ in fr) for fr in fifo):
                return True
            sid, r = h.peer_request(end_stream=True)
            if r.ok:
                t.call('send_headers', sid, RESP, end_stream=True)
            else:
                st['alive'] = False
        return True

    if early_update:
        do_update()
    nsteps = rng.randrange(10, 41)
    for _ in range(nsteps):
        if not st['alive']:
            break
        r = rng.random()
        if r < 0.30:
            if len(fifo) < 4:
                do_update()
        elif r < 0.40:
            do_update(invalid=True)
        elif r < 0.70:
            do_ack()
        elif r < 0.88:
            do_remote()
        else:
            traffic()
    while st['alive'] and fifo:
        do_ack()
    if rep.counters.get('ack_events_judged'):
        rep.nontrivial((e_client, tuple(str(s) for s in steps)))
    if idx % 293 == 0:
        rep.sample({'role': 'client' if e_client else 'server', 'steps': [str(s) for s in steps[:20]]})


def snapshot(h):
    """Public view of the local settings: values in force (mapping), plus pending depth via read-only probe."""
    snap = {}
    ls = getattr(h.c, 'local_settings', None)
    vals = {}
    for k in (1, 2, 3, 4, 5, 6, 8):
        try:
            vals[k] = ls[k]
        except Exception:      # noqa
            vals[k] = None
    snap['in_force'] = vals
    try:
        snap['pending'] = {int(k): list(v)[1:] for k, v in ls._settings.items() if len(v) > 1}
    except Exception:          # noqa
        snap['pending'] = None
    snap['mfs'] = getattr(h.c, 'max_inbound_frame_size', None)
    return snap
