"""C25 - h2c upgrade hands over settings and stream 1 consistently.

For each client settings combination the value returned by the client's
initiate_upgrade_connection() is given, unmodified, to the server's
initiate_upgrade_connection().  Checked: setting-by-setting equality of the
server's view and the client's local settings, the behaviour derived from that
view before any in-band SETTINGS frame is read (frame size, stream-1 send
window, push gate, header table size), the half-closed state of stream 1 on
both sides through real calls, first new stream ids 3 and 2, and a continuation
exchange on the upgraded connection.
"""
import itertools

import hpack
import h2.exceptions
import h2.settings

from .. import core, duet, wire
from ..scen import REQ, RESP

LEVEL = 'exploration'
RULE = ('grid (exhaustive every run): HEADER_TABLE_SIZE {0,4096,65536} x ENABLE_PUSH {0,1} x MAX_CONCURRENT_STREAMS {absent,0,1,100} x '
        'INITIAL_WINDOW_SIZE {0,1,65535,2^31-1} x MAX_FRAME_SIZE {2^14,32768,2^24-1} x MAX_HEADER_LIST_SIZE {absent,0,65536} x '
        'ENABLE_CONNECT_PROTOCOL {0,1}, plus combinations of arbitrary in-range values (600 quick); per combination: settings-view checks on the server before the client preface is read, '
        'stream-1 behaviour on both sides (refused body attempts on the live connections, late WINDOW_UPDATE / RST_STREAM for the finished '
        'stream, last_stream_id of a server GOAWAY), send windows afterwards, next stream ids, and a continuation (requests with bodies, responses, trailers, push '
        'with stream 1 as parent, pings) whose events are compared on both ends; thorough repeats combinations with random '
        'continuation orders; non-trivial = all phases judged; distinct = the combination')
MINIMA = {'settings_views_compared': 1500, 'stream1_behaviour_checked': 1500, 'continuations_checked': 1000,
          'push_on_stream1_checked': 300, 'late_frames_for_stream_1_checked': 3000, 'arbitrary_value_combinations': 400,
          'refused_body_attempts_on_live_connection': 1500}
EXHAUSTIVE = {}

GRID = list(itertools.product([0, 4096, 65536], [0, 1], [None, 0, 1, 100], [0, 1, 65535, 2 ** 31 - 1], [2 ** 14, 32768, 2 ** 24 - 1],
                              [None, 0, 65536], [0, 1]))
KNOWN = [1, 2, 3, 4, 5, 6, 8]


def n_cases(tier):
    return len(GRID) * (1 if tier == 'quick' else 40) + (600 if tier == 'quick' else 60000)


def run_case(idx, rng, tier, rep):
    combo = GRID[idx % len(GRID)]
    if idx >= len(GRID) * (1 if tier == 'quick' else 40):
        # arbitrary values inside each setting's range: every octet pattern of the settings payload, and so every character of
        # the base64url alphabet in the header value
        combo = (rng.choice([rng.randrange(0, 65537), 4030, 62 << 6]), rng.choice([0, 1]), rng.choice([None, rng.randrange(0, 1000), 62]),
                 rng.choice([rng.randrange(0, 2 ** 31), 65534, 2 ** 31 - 1]), rng.choice([rng.randrange(2 ** 14, 2 ** 24), 0xFBEFBE]),
                 rng.choice([None, rng.randrange(0, 2 ** 20)]), rng.choice([0, 1]))
        rep.count('arbitrary_value_combinations')
    hts, push, mcs, iws, mfs, mhls, ecp = combo
    init = {1: hts, 2: push, 4: iws, 5: mfs, 8: ecp}
    if mcs is not None:
        init[3] = mcs
    if mhls is not None:
        init[6] = mhls
    w = {'client_settings': {str(k): v for k, v in init.items()}}

    def fail(key, what):
        rep.violation(key, what, w)
        return False

    # ---------------- phase A: the server's view, before any in-band frame of the client is read
    client = core.Tap(core.make_conn(True), 'C')
    client.c.local_settings = h2.settings.Settings(client=True, initial_values=dict(init))
    r = client.call('initiate_upgrade_connection')
    if r.exc is not None:
        return fail('C25:client-upgrade-raises:' + core.exc_key(r.exc), repr(r.exc))
    header = r.value
    if not isinstance(header, bytes) or header.endswith(b'='):
        return fail('C25:settings-header-malformed', 'HTTP2-Settings value %r' % (header,))
    client_preface = r.out
    server = core.Tap(core.make_conn(False), 'S')
    r = server.call('initiate_upgrade_connection', header)
    if r.exc is not None:
        return fail('C25:server-upgrade-raises:' + core.exc_key(r.exc), repr(r.exc))
    if any(f.type == wire.SETTINGS and f.ack for f in r.frames):
        return fail('C25:settings-ack-leaked', 'the server emitted a SETTINGS ACK for the HTTP2-Settings header')
    server_first = r.out
    rep.count('settings_views_compared')
    for k in KNOWN:
        try:
            cv = client.c.local_settings[k]
        except KeyError:
            cv = None
        try:
            sv = server.c.remote_settings[k]
        except KeyError:
            sv = None
        if cv != sv:
            return fail('C25:server-view-differs:setting-%d' % k, 'client local_settings[%d] = %r, server remote_settings[%d] = %r' % (k, cv, k, sv))
    if getattr(server.c, 'max_outbound_frame_size', mfs) != mfs:
        return fail('C25:derived-state-stale:max_outbound_frame_size', 'server max_outbound_frame_size %r, client MAX_FRAME_SIZE %d' %
                    (server.c.max_outbound_frame_size, mfs))
    lw = server.call('local_flow_control_window', 1)
    if lw.exc is not None or lw.value != min(65535, iws):
        return fail('C25:derived-state-stale:stream-1-send-window', 'server local_flow_control_window(1) = %r, client INITIAL_WINDOW_SIZE %d' %
                    (lw.value if lw.exc is None else lw.exc, iws))
    # behaviour derived from the view: a response with a body sized by the client's limits must be sendable right now
    probe = core.Tap.clone(server)
    pr = probe.call('send_headers', 1, RESP + [(b'x-up', b'1')])
    if pr.exc is not None:
        return fail('C25:server-cannot-answer-stream-1:' + core.exc_key(pr.exc), 'send_headers(1) raised %r' % pr.exc)
    mdec = hpack.Decoder()
    mdec.max_allowed_table_size = hts          # the upgrading client's decoder limit
    blk = b''.join(f.data or b'' for f in pr.frames if f.type in (wire.HEADERS, wire.CONTINUATION))
    try:
        got = [(bytes(n), bytes(v)) for n, v in mdec.decode(blk, raw=True)]
    except Exception as e:      # noqa
        return fail('C25:derived-state-stale:header-table-size', 'first response block is not decodable with the client limit %d: %r' % (hts, e))
    if got != RESP + [(b'x-up', b'1')]:
        return fail('C25:response-block-wrong', 'decoded %r' % got)
    size = min(mfs, iws, 65535, 40000)
    if size > 0:
        pd = probe.call('send_data', 1, b'u' * size)
        if pd.exc is not None:
            return fail('C25:derived-state-stale:%s' % ('frame-size' if isinstance(pd.exc, h2.exceptions.FrameTooLargeError) else 'window'),
                        'send_data(1, %d bytes) raised %r although the client allows frames of %d and a window of %d' % (size, pd.exc, mfs, iws))
    pp = probe.call('push_stream', 1, 2, REQ)
    if push == 0 and pp.exc is None:
        return fail('C25:push-gate-ignores-upgrade-settings', 'push_stream succeeded although the client sent ENABLE_PUSH=0')
    if push == 1 and pp.exc is not None:
        return fail('C25:push-refused-after-upgrade:' + core.exc_key(pp.exc), 'push_stream(1, 2) raised %r' % pp.exc)
    # next stream ids
    for tap, want in ((client, 3), (server, 2)):
        r = tap.call('get_next_available_stream_id')
        if r.exc is not None or r.value != want:
            return fail('C25:first-new-stream-id-wrong:%s' % tap.name, 'get_next_available_stream_id() = %r, expected %d' %
                        (r.value if r.exc is None else r.exc, want))

    # ---------------- phase B: stream 1 behaviour and continuation with a self-consistent client
    # (settings whose effect at the client lives in derived state - table size, frame size, header list size - stay default)
    initb = {2: push, 4: iws, 8: ecp}
    if mcs is not None:
        initb[3] = mcs
    d = duet.Duet()
    d.c.c.local_settings = h2.settings.Settings(client=True, initial_values=dict(initb))
    r = d.call('c', 'initiate_upgrade_connection')
    header = r.value
    r = d.call('s', 'initiate_upgrade_connection', header)
    if r.exc is not None:
        return fail('C25:server-upgrade-raises:' + core.exc_key(r.exc), repr(r.exc))
    order = rng.random() < 0.5
    rep.count('stream1_behaviour_checked')
    # the client cannot send a request body on stream 1
    for op, args in (('send_data', (1, b'body')), ('end_stream', (1,)), ('send_headers', (1, [(b'x-t', b'1')], True))):
        pc = core.Tap.clone(d.c)
        rr = pc.call(op, *args)
        if rr.exc is None or rr.frames:
            return fail('C25:client-can-send-on-upgraded-stream:%s' % op, 'client %s on stream 1 returned normally / emitted %s' %
                        (op, [f.name for f in rr.frames]))
    # ... and trying leaves no trace on the live connection either (it is refused, emits nothing, and the send windows still
    # say what the server granted: checked below when stream 3 is opened)
    attempts = 0
    for size in rng.sample([1, 100, 16384, 16384, 16384, 20000], rng.choice([1, 2, 3])):
        rr = d.c.call('send_data', 1, b'b' * size)
        attempts += 1
        if rr.exc is None or rr.frames:
            return fail('C25:client-can-send-on-upgraded-stream:send_data', 'live client send_data(1, %d bytes) returned normally / emitted %s' %
                        (size, [f.name for f in rr.frames]))
    rep.count('refused_body_attempts_on_live_connection', attempts)
    if order:
        d.settle()
    # DATA on stream 1 delivered to the server is an error (the request is complete)
    ps = core.Tap.clone(d.s)
    if not order:
        ps.call('receive_data', bytes(d.pipe['c2s']))
    rr = ps.call('receive_data', wire.build_data(1, b'extra'))
    if rr.exc is None and not any(f.type == wire.RST_STREAM and f.stream_id == 1 for f in rr.frames):
        return fail('C25:server-accepts-body-on-upgraded-stream', 'DATA on stream 1 accepted by the server: %s' % [type(e).__name__ for e in rr.events])
    # the server answers stream 1; optionally pushes on it first
    do_push = push == 1 and (mcs is None or mcs >= 1) and rng.random() < 0.7
    if do_push:
        rep.count('push_on_stream1_checked')
        r = d.call('s', 'push_stream', 1, 2, REQ)
        if r.exc is not None:
            return fail('C25:push-refused-after-upgrade:' + core.exc_key(r.exc), 'push_stream(1, 2) raised %r' % r.exc)
        out = d.settle()
        pe = [e for side, rr in out if side == 'c' and rr is not None for e in rr.events if type(e).__name__ == 'PushedStreamReceived']
        if d.errors or len(pe) != 1 or (pe[0].parent_stream_id, pe[0].pushed_stream_id) != (1, 2):
            return fail('C25:push-on-stream-1-not-delivered', 'errors %r, push events %s' % (d.errors, [(e.parent_stream_id, e.pushed_stream_id) for e in pe]))
        # still no request body possible on stream 1
        pc = core.Tap.clone(d.c)
        rr = pc.call('send_data', 1, b'body')
        if rr.exc is None:
            return fail('C25:client-can-send-on-upgraded-stream:after-push', 'after a push on stream 1 the client could send DATA on it')
    body = b'x' * min(iws, 1000)
    r = d.call('s', 'send_headers', 1, RESP)
    if r.exc is not None:
        return fail('C25:server-cannot-answer-stream-1:' + core.exc_key(r.exc), repr(r.exc))
    if body:
        r = d.call('s', 'send_data', 1, body)
        if r.exc is not None:
            return fail('C25:server-cannot-send-body-on-stream-1:' + core.exc_key(r.exc), repr(r.exc))
    r = d.call('s', 'end_stream', 1)
    out = d.settle()
    if d.errors:
        return fail('C25:upgraded-exchange-raises:%s:%s' % (d.errors[0][0], core.exc_key(d.errors[0][1])), repr(d.errors[0][1]))
    cev = [e for side, rr in out if side == 'c' and rr is not None for e in rr.events]
    names = [type(e).__name__ for e in cev if getattr(e, 'stream_id', None) == 1]
    want = ['ResponseReceived'] + (['DataReceived'] if body else []) + ['DataReceived', 'StreamEnded']
    if names != want and names != ['ResponseReceived'] + (['DataReceived'] if body else []) + ['StreamEnded']:
        return fail('C25:client-events-on-stream-1-wrong', 'client events for stream 1: %s' % names)
    got_body = b''.join(e.data for e in cev if type(e).__name__ == 'DataReceived' and e.stream_id == 1)
    if got_body != body:
        return fail('C25:response-body-differs', 'client received %d bytes, server sent %d' % (len(got_body), len(body)))
    for tap, attr in ((d.c, 'open_outbound_streams'), (d.s, 'open_inbound_streams')):
        v = getattr(tap.c, attr)
        if v != 0:
            return fail('C25:stream-1-not-closed-after-response:%s' % tap.name, '%s = %d after stream 1 ended both ways' % (attr, v))
    # stream 1 is over and forgotten (the open_*_streams reads above sweep closed streams); it was a real stream all the same:
    # frames the client sent for it before it saw the end are tolerated, and a GOAWAY from the server names it
    for late in (wire.build_window_update(1, 1000), wire.build_rst(1, 8), wire.build_window_update(1, 1000) + wire.build_rst(1, 0)):
        ps = core.Tap.clone(d.s)
        rr = ps.call('receive_data', late)
        rep.count('late_frames_for_stream_1_checked')
        if rr.exc is not None or any(f.type == wire.GOAWAY for f in rr.frames):
            return fail('C25:late-frame-for-finished-stream-1-kills-connection',
                        'server receive_data(%s) after stream 1 ended: exc %r frames %s' %
                        ([f.brief() for f in wire.parse_frames(late)[0]], rr.exc, [f.brief() for f in rr.frames]))
    ps = core.Tap.clone(d.s)
    rr = ps.call('close_connection')
    ga = [f for f in rr.frames if f.type == wire.GOAWAY]
    if rr.exc is not None or len(ga) != 1 or ga[0].last_stream_id != 1:
        return fail('C25:goaway-does-not-name-stream-1', 'server close_connection() after answering stream 1: exc %r, GOAWAY last_stream_id %s' %
                    (rr.exc, [f.last_stream_id for f in ga]))
    # refused attempts on the finished stream at the server leave no trace either
    for size in rng.sample([1, 16384, 16384, 30000], rng.choice([1, 2])):
        rr = d.s.call('send_data', 1, b'b' * size)
        if rr.exc is None or rr.frames:
            return fail('C25:server-can-send-on-finished-stream-1', 'send_data(1, %d) after END_STREAM returned normally / emitted %s' %
                        (size, [f.name for f in rr.frames]))
    # ---------------- continuation
    rep.count('continuations_checked')
    limit = mcs if mcs is not None else 100
    r = d.call('c', 'send_headers', 3, REQ + [(b'x-n', b'3')])
    if r.exc is not None:
        return fail('C25:first-client-stream-refused:' + core.exc_key(r.exc), 'send_headers(3) raised %r' % r.exc)
    # nothing flow-controlled has gone from client to server yet: the whole default window is available on stream 3
    lw = d.c.call('local_flow_control_window', 3)
    if lw.exc is not None or lw.value != 65535:
        return fail('C25:client-send-window-wrong-after-upgrade', 'client local_flow_control_window(3) = %r; the server granted 65535 and '
                    'nothing was sent (%d refused body attempts on stream 1)' % (lw.value if lw.exc is None else lw.exc, attempts))
    r = d.call('c', 'send_data', 3, b'req-body', end_stream=True)
    out = d.settle()
    sev = [e for side, rr in out if side == 's' and rr is not None for e in rr.events if getattr(e, 'stream_id', None) == 3]
    if d.errors or [type(e).__name__ for e in sev] != ['RequestReceived', 'DataReceived', 'StreamEnded']:
        return fail('C25:continuation-request-not-delivered', 'errors %r, server events %s' % (d.errors, [type(e).__name__ for e in sev]))
    if do_push:
        r = d.call('s', 'send_headers', 2, RESP, end_stream=True)
        if r.exc is not None:
            return fail('C25:pushed-response-refused:' + core.exc_key(r.exc), repr(r.exc))
    # the server has sent len(body) flow-controlled bytes so far, all on stream 1
    lw = d.s.call('local_flow_control_window', 3)
    if lw.exc is not None or lw.value != min(iws, 65535 - len(body)):
        return fail('C25:server-send-window-wrong-after-upgrade', 'server local_flow_control_window(3) = %r, expected %d (client window %d, '
                    '%d bytes sent on stream 1)' % (lw.value if lw.exc is None else lw.exc, min(iws, 65535 - len(body)), iws, len(body)))
    r = d.call('s', 'send_headers', 3, RESP)
    r2 = d.call('s', 'send_headers', 3, [(b'x-trailer', b'done')], end_stream=True)
    d.call('c', 'ping', b'pingpong')
    out = d.settle()
    if d.errors or r.exc is not None or r2.exc is not None:
        return fail('C25:continuation-response-failed', 'errors %r %r %r' % (d.errors, r.exc, r2.exc))
    cev = [type(e).__name__ for side, rr in out if side == 'c' and rr is not None for e in rr.events if getattr(e, 'stream_id', None) == 3]
    if cev != ['ResponseReceived', 'TrailersReceived', 'StreamEnded']:
        return fail('C25:continuation-response-events-wrong', 'client events for stream 3: %s' % cev)
    pa = [e for side, rr in out if side == 'c' and rr is not None for e in rr.events if type(e).__name__ == 'PingAckReceived']
    if len(pa) != 1:
        return fail('C25:continuation-ping-lost', '%d PingAckReceived' % len(pa))
    r = d.call('c', 'get_next_available_stream_id')
    if r.value != 5:
        return fail('C25:next-stream-id-after-continuation', 'client next id %r' % r.value)
    rep.nontrivial(combo)
    if idx % 577 == 0:
        rep.sample({'client_settings': w['client_settings'], 'push_on_stream_1': do_push, 'order': order})
    return True
