"""C08 - the library refuses to emit messages that violate HTTP/2 message rules.

One real endpoint E (either role, plain or h2c-upgraded) and a scripted peer that
only opens streams, promises streams, half-closes or resets them.  E runs an
order-scrambled program of send_headers / send_data / end_stream / push_stream /
prioritize / advertise_alternative_service / reset_stream on new, inbound,
pushed and upgraded streams.

Two oracles:
 (a) wire grammar - everything E emits is re-parsed with the independent codec
     and its header blocks are decoded by a monitor-owned HPACK decoder.  A
     client only opens streams with a request header block on an odd id, never
     emits PUSH_PROMISE or ALTSVC, never sends on a stream promised to it.  A
     server never emits HEADERS on a stream that was neither opened by the peer
     nor promised by itself, never emits PRIORITY (frame or HEADERS flag), and
     only promises on live client-initiated streams.  Per stream the emitted
     sequence is: informational header blocks (servers only, no END_STREAM),
     one request / final-response block, DATA, optional trailers that carry
     END_STREAM; nothing but RST_STREAM / WINDOW_UPDATE after END_STREAM or
     after a reset.
 (b) call level - a call that the message rules forbid in the model state must
     raise ProtocolError (RFC1122Error for server-side priority) and emit
     nothing.
Whether a permitted call succeeds is C06's question and is not judged here.  A
refused call changes nothing, so the model keeps the stream where it was and
goes on judging every later call on it.
"""
import h2.exceptions

from .. import core, scen, wire
from ..scen import hb

LEVEL = 'exploration'
RULE = ('(a quarter of the cases with outbound header validation and or normalisation switched off: the order of message parts is promised regardless; 1xx statuses 100-199) '
        'order-scrambled programs (10-60 calls) of send_headers (request / informational / final / trailer / mixed header lists, with and '
        'without END_STREAM and priority arguments), send_data, end_stream, push_stream, prioritize, advertise_alternative_service and '
        'reset_stream over new, inbound, pushed (both directions) and upgraded streams, both roles, with the peer half-closing and resetting '
        'streams in between; non-trivial = at least one forbidden call judged; distinct = hash of the call list')
MINIMA = {'forbidden_call_refused': 100000, 'wire_frames_checked': 100000, 'wire_header_blocks_decoded': 50000,
          'judged:client-push': 1000, 'judged:client-altsvc': 1000, 'judged:server-headers-on-fresh-stream': 1000,
          'judged:server-priority': 1000, 'judged:data-before-final-headers': 1000, 'judged:end-stream-before-final-headers': 500,
          'judged:data-before-final-headers-on-promised-stream': 300,
          'judged:headers-after-trailers-or-end': 1000, 'judged:informational-after-final': 150, 'judged:second-informational-block': 150,
          'judged:trailers-without-end-stream': 500, 'judged:client-opens-with-non-request': 1000,
          'judged:push-on-pushed-stream': 100, 'judged:second-final-block': 500, 'judged:client-headers-on-promised-stream': 500,
          'permitted_call_succeeded': 80000, 'header_blocks_spelt_sloppily': 5000, 'peer_continuation_frames': 20000}
EXHAUSTIVE = {}

REQ = [(b':method', b'GET'), (b':scheme', b'https'), (b':authority', b'example.com'), (b':path', b'/')]
REQ2 = [(b':method', b'POST'), (b':scheme', b'https'), (b':authority', b'example.com'), (b':path', b'/p'), (b'x-a', b'1')]
FINALS = [[(b':status', b'200')], [(b':status', b'404'), (b'x-a', b'b')], [(b':status', b'204')]]
INFOS = [[(b':status', b'100')], [(b':status', b'103'), (b'link', b'</a>')], [(b':status', b'102')], [(b':status', b'110')],
         [(b':status', b'150'), (b'x-a', b'b')], [(b':status', b'199')]]
# refusals that rest on the content of the header list, not on the position of the call: only promised while outbound
# header validation is on
CONTENT_RULES = ('client-opens-with-non-request', 'first-block-not-a-response', 'second-final-block', 'second-request-block',
                 'second-other-block', 'second-informational-block')
TRAILERS = [[(b'x-trailer', b't')], [(b'x-checksum', b'abc'), (b'x-b', b'2')]]


def n_cases(tier):
    return 20000 if tier == 'quick' else 4000000


def block_kind(headers):
    names = [n for n, _ in headers]
    if b':method' in names:
        return 'request'
    st = [v for n, v in headers if n == b':status']
    if st:
        return 'informational' if st[0][:1] == b'1' else 'final'
    if any(n.startswith(b':') for n in names):
        return 'other'
    return 'trailers'


def run_case(idx, rng, tier, rep):
    e_client = rng.random() < 0.5
    upgraded = rng.random() < 0.15
    calls = []
    st = {'alive': True, 'judged': False}
    # model of what E has sent / may send per stream:
    #  owner 'E'|'P'; kind 'own'|'inbound'|'pushed_by_E'|'pushed_by_P'; phase 'need_first'|'body'|'done'|'reset'; poisoned bool
    ms = {}
    # wire automaton state per stream, driven only by emitted frames (and delivered resets)
    ws = {}

    cfg = {}
    if rng.random() < 0.25:
        # the order of a message's parts does not depend on header validation or normalisation being switched on
        cfg = {'validate_outbound_headers': rng.random() < 0.3, 'normalize_outbound_headers': rng.random() < 0.5}
        rep.count('cases_with_outbound_validation_or_normalisation_off')
    validating = cfg.get('validate_outbound_headers', True)
    normalizing = cfg.get('normalize_outbound_headers', True)
    if upgraded:
        h = scen.Hostile(e_client, handshake=False, cfg=cfg)
        t = h.t
        if e_client:
            r = t.call('initiate_upgrade_connection')
            h.send(wire.build_settings([]))
            ms[1] = {'kind': 'own', 'phase': 'done', 'poisoned': False}
            ws[1] = {'phase': 'done', 'mine': True}
            h.e_next = 3
        else:
            r = t.call('initiate_upgrade_connection', b'')
            h.send(wire.PREFACE + wire.build_settings([]))
            ms[1] = {'kind': 'inbound', 'phase': 'need_first', 'poisoned': False}
            ws[1] = {'phase': 'need_first', 'mine': False}
            h.peer_next = 3
        if r.exc is not None:
            rep.violation('C08:upgrade-raises:' + core.exc_key(r.exc), repr(r.exc))
            return
    else:
        h = scen.Hostile(e_client, cfg=cfg)
        t = h.t

    def witness():
        return {'role': 'client' if e_client else 'server', 'upgraded': upgraded, 'cfg': cfg, 'calls': [str(c) for c in calls[-14:]],
                'model': {str(k): '%s:%s%s' % (v['kind'], v['phase'], ':poisoned' if v['poisoned'] else '') for k, v in sorted(ms.items())},
                'wire': {str(k): v['phase'] for k, v in sorted(ws.items())}, 'log_tail': t.tail_log(4)}

    def fail(key, what, stop=True):
        rep.violation(key, what, witness())
        if stop:
            st['alive'] = False

    # ------------------------------------------------------------------ wire grammar
    def wire_check(frames):
        if not frames:
            return
        blocks = {}
        for first, hs in h.decode_blocks(frames):
            blocks[id(first)] = hs
        for f in frames:
            rep.count('wire_frames_checked')
            sid = f.stream_id
            if f.type == wire.PRIORITY and not e_client:
                return fail('C08:wire:server-sent-PRIORITY', 'server emitted %r' % (f.brief(),))
            if f.type == wire.ALTSVC and e_client:
                return fail('C08:wire:client-sent-ALTSVC', 'client emitted ALTSVC on stream %d' % sid)
            if f.type == wire.PUSH_PROMISE:
                if e_client:
                    return fail('C08:wire:client-sent-PUSH_PROMISE', 'client emitted %r' % (f.brief(),))
                hs = blocks.get(id(f))
                rep.count('wire_header_blocks_decoded')
                w = ws.get(sid)
                if w is None or w['mine'] or sid % 2 == 0:
                    return fail('C08:wire:promise-on-stream-not-opened-by-client', 'PUSH_PROMISE on stream %d (%s)' %
                                (sid, 'unknown' if w is None else 'own stream'))
                if w['phase'] in ('done', 'reset'):
                    return fail('C08:wire:promise-on-%s-stream' % w['phase'], 'PUSH_PROMISE on stream %d after %s' % (sid, w['phase']))
                if isinstance(hs, Exception) or block_kind(hs) != 'request':
                    return fail('C08:wire:promise-without-request-headers', 'PUSH_PROMISE block %r' % (hs,))
                if f.promised_id in ws:
                    return fail('C08:wire:promised-id-already-used', 'promised id %d' % f.promised_id)
                ws[f.promised_id] = {'phase': 'need_first', 'mine': True}
                continue
            if f.type == wire.RST_STREAM:
                if sid in ws:
                    ws[sid]['phase'] = 'reset'
                continue
            if f.type not in (wire.HEADERS, wire.DATA):
                continue
            w = ws.get(sid)
            if f.type == wire.HEADERS:
                hs = blocks.get(id(f))
                rep.count('wire_header_blocks_decoded')
                if isinstance(hs, Exception) or hs is None:
                    return fail('C08:wire:undecodable-header-block', 'HEADERS on %d: %r' % (sid, hs))
                kind = block_kind(hs)
                if f.flags & wire.F_PRIORITY and not e_client:
                    return fail('C08:wire:server-sent-priority-in-HEADERS', 'server HEADERS on %d carries priority fields' % sid)
                if w is None:
                    # an opening
                    if not e_client:
                        return fail('C08:wire:server-opened-stream-with-HEADERS', 'server emitted HEADERS (%s) on never-used stream %d' % (kind, sid))
                    if sid % 2 == 0:
                        return fail('C08:wire:client-opened-even-stream', 'client emitted HEADERS on never-used even stream %d' % sid)
                    if kind != 'request':
                        return fail('C08:wire:client-opened-stream-without-request', 'client opened stream %d with a %s block %r' % (sid, kind, hs))
                    ws[sid] = w = {'phase': 'done' if f.end_stream else 'body', 'mine': True}
                    continue
                if e_client and not w['mine']:
                    return fail('C08:wire:client-sent-HEADERS-on-promised-stream', 'client emitted HEADERS on stream %d promised by the server' % sid)
                if w['phase'] in ('done', 'reset'):
                    return fail('C08:wire:HEADERS-after-%s' % w['phase'], 'HEADERS (%s) on stream %d after %s' % (kind, sid, w['phase']))
                if w['phase'] == 'need_first':
                    # only servers get here (inbound / promised / upgraded streams)
                    if kind == 'informational':
                        if f.end_stream:
                            return fail('C08:wire:informational-with-END_STREAM', 'stream %d' % sid)
                        continue
                    if kind != 'final':
                        return fail('C08:wire:first-block-not-a-response', 'server emitted a %s block first on stream %d: %r' % (kind, sid, hs))
                    w['phase'] = 'done' if f.end_stream else 'body'
                    continue
                # phase body: only trailers with END_STREAM
                if kind != 'trailers':
                    return fail('C08:wire:%s-block-after-final-headers' % kind, 'stream %d: %r' % (sid, hs))
                if not f.end_stream:
                    return fail('C08:wire:trailers-without-END_STREAM', 'stream %d' % sid)
                w['phase'] = 'done'
            else:
                if w is None:
                    return fail('C08:wire:DATA-on-never-used-stream', 'DATA on stream %d' % sid)
                if e_client and not w['mine']:
                    return fail('C08:wire:client-sent-DATA-on-promised-stream', 'stream %d' % sid)
                if w['phase'] == 'need_first' and w['mine']:
                    return fail('C08:wire:DATA-before-final-headers-on-promised-stream',
                                'DATA%s on promised stream %d before its response header block' % (' with END_STREAM' if f.end_stream else '', sid))
                if w['phase'] == 'need_first':
                    # reported once per mechanism; the history goes on (the stream has simply not sent its headers yet)
                    fail('C08:wire:DATA-before-final-headers', 'DATA%s on stream %d before any final header block' %
                         (' with END_STREAM' if f.end_stream else '', sid), stop=False)
                elif w['phase'] != 'body':
                    return fail('C08:wire:DATA-in-phase-%s' % w['phase'], 'DATA on stream %d in phase %s' % (sid, w['phase']))
                if f.end_stream:
                    w['phase'] = 'done'

    h.observer = None

    def deliver(data, what):
        res = h.send(data)
        wire_check(res.frames)
        if res.exc is not None and st['alive']:
            # how E treats the peer's frames is not this property's question (C06/C07/C15): the connection is gone, the case ends
            rep.count('case_ended_by_connection_error_on_peer_frame')
            rep.observe('peer_frame_refused', '%s:%s' % (what, type(res.exc).__name__))
            st['alive'] = False
        return res

    # ------------------------------------------------------------------ peer moves
    def peer_open():
        if e_client:
            return
        sid = h.peer_next
        h.peer_next += 2
        es = rng.random() < 0.3
        calls.append(('P-open', sid, es))
        deliver(wire.build_headers(sid, hb(REQ), end_stream=es), 'HEADERS')
        ms[sid] = {'kind': 'inbound', 'phase': 'need_first', 'poisoned': False, 'p_ended': es}
        ws[sid] = {'phase': 'need_first', 'mine': False}

    def peer_push():
        if not e_client:
            return
        parents = [s for s, v in ms.items() if v['kind'] == 'own' and v['phase'] in ('body', 'done') and not v['poisoned']
                   and not v.get('p_ended') and v.get('p_phase') != 'done' and v['phase'] != 'reset' and ws.get(s, {}).get('phase') != 'reset']
        if not parents:
            return
        par = rng.choice(sorted(parents))
        sid = h.peer_next
        h.peer_next += 2
        calls.append(('P-push', par, sid))
        deliver(wire.build_push_promise(par, sid, hb(REQ)), 'PUSH_PROMISE')
        ms[sid] = {'kind': 'pushed_by_P', 'phase': 'never', 'poisoned': False}
        ws[sid] = {'phase': 'need_first', 'mine': False}

    def peer_continue():
        """The peer goes on with its own side of a stream (valid frames only): responses incl. 1xx, DATA,
        trailers, END_STREAM.  None of this may change what E is allowed to send."""
        c = []
        for sid, m in ms.items():
            if m['phase'] == 'reset' or m['kind'] == 'pushed_by_E' or m['poisoned']:
                continue
            if ws.get(sid, {}).get('phase') == 'reset' or m.get('p_phase') == 'done':
                continue
            if m['kind'] == 'own' and ws.get(sid) is None:
                continue
            c.append(sid)
        if not c:
            return
        sid = rng.choice(sorted(c))
        m = ms[sid]
        pp = m.get('p_phase')
        if pp is None:
            # what the peer has sent so far on this stream
            if m['kind'] == 'inbound':
                pp = 'done' if m.get('p_ended') else 'body'
            else:
                pp = 'need_first'           # own stream of a client E, or a stream the peer promised
            if upgraded and sid == 1 and not e_client:
                pp = 'done'
        if pp == 'done':
            m['p_phase'] = 'done'
            return
        if pp == 'need_first':
            k = rng.choice(['info', 'info', 'final', 'final_es'] if m['kind'] == 'own' else ['final', 'final_es'])
            if k == 'info':
                calls.append(('P-informational', sid))
                deliver(wire.build_headers(sid, hb(rng.choice(INFOS))), 'informational-HEADERS')
            else:
                es = k == 'final_es'
                calls.append(('P-final', sid, es))
                deliver(wire.build_headers(sid, hb(rng.choice(FINALS[:2])), end_stream=es), 'final-HEADERS')
                pp = 'done' if es else 'body'
        else:
            k = rng.choice(['data', 'data', 'data_es', 'trailers'])
            if k == 'trailers':
                calls.append(('P-trailers', sid))
                deliver(wire.build_headers(sid, hb(TRAILERS[0]), end_stream=True), 'trailer-HEADERS')
                pp = 'done'
            else:
                es = k == 'data_es'
                calls.append(('P-data', sid, es))
                deliver(wire.build_data(sid, b'p' * rng.randrange(0, 9), end_stream=es), 'DATA')
                if es:
                    pp = 'done'
        m['p_phase'] = pp
        rep.count('peer_continuation_frames')

    def peer_reset():
        c = [s for s, v in ms.items() if v['phase'] != 'reset' and ws.get(s, {}).get('phase') != 'reset']
        if not c:
            return
        sid = rng.choice(sorted(c))
        if sid == 1 and upgraded and e_client and ms[1]['phase'] == 'done' and False:
            return
        calls.append(('P-rst', sid))
        deliver(wire.build_rst(sid, 8), 'RST_STREAM')
        ms[sid]['phase'] = 'reset'
        if sid in ws:
            ws[sid]['phase'] = 'reset'

    # ------------------------------------------------------------------ E's calls
    def judge(r, forbidden, what):
        """forbidden: None (permitted by the model) or a short reason string."""
        wire_check(r.frames)
        if not st['alive']:
            return False
        if forbidden is None:
            if r.exc is None:
                rep.count('permitted_call_succeeded')
                return True
            rep.count('permitted_call_raised_not_judged')
            rep.observe('permitted_but_raised', '%s:%s' % (what, type(r.exc).__name__))
            st['permitted_raised'] = True
            return False
        st['judged'] = True
        rep.count('judged:' + forbidden)
        if r.exc is None:
            tolerated = forbidden in ('data-before-final-headers', 'end-stream-before-final-headers')
            fail('C08:forbidden-call-accepted:%s:%s' % (what, forbidden),
                 '%s succeeded although %s; emitted %s' % (what, forbidden, [f.brief() for f in r.frames]), stop=not tolerated)
            return tolerated
        ok_types = (h2.exceptions.ProtocolError,) + ((h2.exceptions.RFC1122Error,) if forbidden == 'server-priority' else ())
        if not isinstance(r.exc, ok_types):
            fail('C08:forbidden-call-wrong-exception:%s:%s:%s' % (what, forbidden, core.exc_key(r.exc)), repr(r.exc))
            return False
        if r.frames:
            fail('C08:refused-call-emitted-frames:%s:%s' % (what, forbidden), str([f.brief() for f in r.frames]))
            return False
        rep.count('forbidden_call_refused')
        rep.count('forbidden:' + forbidden)
        return False

    def pick_stream():
        """Any stream slot: known ones, or a fresh id of either parity."""
        r = rng.random()
        if ms and r < 0.75:
            return rng.choice(sorted(ms))
        if r < 0.9:
            return h.e_next
        # an id of the peer's parity that nobody used
        return h.peer_next

    def poison(sid):
        # a refused call sends nothing and therefore changes nothing: the stream stays where the model has it and every later call
        # on it is judged as usual (the 'poisoned' flag is kept only for permitted calls that raise, which C06 judges)
        return

    def legal_headers_choice():
        """A (stream, block kind, END_STREAM) that the model permits, to make progress into deeper states."""
        opts = []
        if e_client:
            opts.append((h.e_next, 'request', rng.random() < 0.3))
        for sid, m in ms.items():
            if m['poisoned'] or m['kind'] == 'pushed_by_P':
                continue
            if m['phase'] == 'need_first':
                opts.append((sid, 'final', rng.random() < 0.3))
                opts.append((sid, 'informational', False))
            elif m['phase'] == 'body':
                opts.append((sid, 'trailers', True))
        return rng.choice(opts) if opts else None

    def do_send_headers():
        sid = pick_stream()
        kind = rng.choice(['request', 'final', 'final', 'informational', 'trailers', 'trailers'])
        es = rng.random() < 0.45
        lc = legal_headers_choice() if rng.random() < 0.5 else None
        if lc is not None:
            sid, kind, es = lc
        hl = {'request': rng.choice([REQ, REQ2]), 'final': rng.choice(FINALS), 'informational': rng.choice(INFOS),
              'trailers': rng.choice(TRAILERS)}[kind]
        if normalizing and hl and rng.random() < 0.15:
            # the same block spelt the way normalisation repairs: its place in the message is that of the repaired block
            n0, v0 = hl[0]
            how = rng.randrange(4)
            if how == 0:
                n0 = n0.title() if n0.startswith(b':') is False else b':' + n0[1:].title()
            elif how == 1:
                v0 = b' ' + v0
            elif how == 2:
                n0, v0 = n0.decode().upper(), v0.decode() + ' '
            else:
                n0 = b' ' + n0
            hl = [(n0, v0)] + list(hl[1:])
            rep.count('header_blocks_spelt_sloppily')
        prio = rng.random() < (0.12 if lc is None else 0.0)
        kw = {}
        if prio:
            # any non-empty subset of the three priority arguments, including the falsy-but-present values 0 and False
            while not kw:
                if rng.random() < 0.5:
                    kw['priority_weight'] = rng.choice([1, 16, 256, rng.randrange(1, 257)])
                if rng.random() < 0.5:
                    kw['priority_depends_on'] = rng.choice([0, 0, sid + 2, 1 if sid != 1 else 3])
                if rng.random() < 0.5:
                    kw['priority_exclusive'] = rng.random() < 0.5
        calls.append(('send_headers', sid, kind, es, sorted(kw.items()) if prio else ''))
        m = ms.get(sid)
        forbidden = None
        if m is not None and m['poisoned']:
            r = t.call('send_headers', sid, hl, end_stream=es, **kw)
            wire_check(r.frames)
            return
        if prio and not e_client:
            forbidden = 'server-priority'
        elif m is None:
            if not e_client:
                forbidden = 'server-headers-on-fresh-stream'
            elif sid % 2 == 0:
                forbidden = 'client-headers-on-unpromised-even-stream'
            elif kind != 'request':
                forbidden = 'client-opens-with-non-request'
        elif m['kind'] == 'pushed_by_P':
            forbidden = 'client-headers-on-promised-stream'
        elif m['phase'] in ('done', 'reset'):
            forbidden = 'headers-after-trailers-or-end'
        elif m['phase'] == 'need_first':
            # server side: informational (no END_STREAM) or the final response
            if kind == 'informational':
                if es:
                    forbidden = 'informational-with-end-stream'
            elif kind != 'final':
                forbidden = 'first-block-not-a-response'
        else:       # body
            if kind == 'informational' and not e_client:
                forbidden = 'informational-after-final'
            elif kind != 'trailers':
                forbidden = 'second-%s-block' % kind
            elif not es:
                forbidden = 'trailers-without-end-stream'
        if forbidden in CONTENT_RULES and not validating:
            return
        r = t.call('send_headers', sid, hl, end_stream=es, **kw)
        ok = judge(r, forbidden, 'send_headers')
        if forbidden is not None or r.exc is not None:
            if m is not None and r.exc is not None and forbidden != 'server-priority':
                poison(sid)
            return
        if ok:
            if m is None:
                ms[sid] = {'kind': 'own', 'phase': 'done' if es else 'body', 'poisoned': False}
                h.e_next = max(h.e_next, sid + 2)
            elif m['phase'] == 'need_first':
                if kind == 'final':
                    m['phase'] = 'done' if es else 'body'
            else:
                m['phase'] = 'done'

    def do_send_data(end_only):
        sid = pick_stream()
        live = [x for x, m in ms.items() if m['phase'] == 'body' and not m['poisoned']]
        if live and rng.random() < 0.5:
            sid = rng.choice(sorted(live))
        es = True if end_only else rng.random() < 0.4
        calls.append(('end_stream' if end_only else 'send_data', sid, es))
        m = ms.get(sid)
        if m is not None and m['poisoned']:
            r = t.call('end_stream', sid) if end_only else t.call('send_data', sid, b'd' * rng.randrange(0, 20), end_stream=es)
            wire_check(r.frames)
            return
        forbidden = None
        pre = 'end-stream' if end_only else 'data'
        if m is None:
            forbidden = pre + '-on-unopened-stream'
        elif m['kind'] == 'pushed_by_P':
            forbidden = pre + '-on-promised-stream'
        elif m['phase'] == 'need_first':
            # (on a stream E has promised the library does refuse this; on inbound streams it does not - the known finding)
            forbidden = pre + ('-before-final-headers-on-promised-stream' if m['kind'] == 'pushed_by_E' else '-before-final-headers')
        elif m['phase'] in ('done', 'reset'):
            forbidden = pre + '-after-end'
        if end_only:
            r = t.call('end_stream', sid)
        else:
            r = t.call('send_data', sid, b'd' * rng.randrange(0, 20), end_stream=es, **({'pad_length': rng.randrange(0, 9)} if rng.random() < 0.2 else {}))
        ok = judge(r, forbidden, 'end_stream' if end_only else 'send_data')
        if r.exc is not None and m is not None:
            poison(sid)
        if ok and es:
            # (also after a tolerated DATA-before-headers finding: the stream has ended without ever sending headers)
            m['phase'] = 'done'

    def do_push():
        par = pick_stream()
        live = [x for x, m in ms.items() if m['kind'] == 'inbound' and m['phase'] in ('need_first', 'body') and not m['poisoned']]
        if live and rng.random() < 0.5:
            par = rng.choice(sorted(live))
        r0 = rng.random()
        promised = h.e_next if r0 < 0.8 else (h.peer_next if r0 < 0.9 else rng.choice(sorted(ms) or [2]))
        calls.append(('push_stream', par, promised))
        m = ms.get(par)
        if m is not None and m['poisoned']:
            r = t.call('push_stream', par, promised, REQ)
            wire_check(r.frames)
            if r.exc is None:
                ms[promised] = {'kind': 'pushed_by_E', 'phase': 'need_first', 'poisoned': False}
                h.e_next = max(h.e_next, promised + 2)
            return
        forbidden = None
        undetermined = False
        if e_client:
            forbidden = 'client-push'
        elif m is None:
            forbidden = 'push-on-unopened-stream'
        elif m['kind'] == 'pushed_by_E':
            forbidden = 'push-on-pushed-stream'
        elif m['phase'] in ('done', 'reset'):
            forbidden = 'push-on-ended-stream'
        elif promised in ms or promised % 2 == 1 or promised < h.e_next:
            forbidden = 'push-with-bad-promised-id'
        r = t.call('push_stream', par, promised, REQ)
        ok = judge(r, forbidden, 'push_stream')
        if ok:
            ms[promised] = {'kind': 'pushed_by_E', 'phase': 'need_first', 'poisoned': False}
            h.e_next = max(h.e_next, promised + 2)
        elif r.exc is not None and m is not None and not e_client:
            poison(par)

    def do_prioritize():
        sid = pick_stream()
        dep = rng.choice([0, 1, 3])
        if dep == sid:
            dep = 0
        calls.append(('prioritize', sid))
        r = t.call('prioritize', sid, weight=rng.randrange(1, 257), depends_on=dep, exclusive=rng.random() < 0.5)
        judge(r, None if e_client else 'server-priority', 'prioritize')

    def do_altsvc():
        by_stream = rng.random() < 0.5
        if by_stream:
            sid = pick_stream()
            calls.append(('altsvc-stream', sid))
            r = t.call('advertise_alternative_service', b'h2=":443"', stream_id=sid)
        else:
            calls.append(('altsvc-origin',))
            r = t.call('advertise_alternative_service', b'h2=":443"', origin=b'example.com')
        if e_client:
            judge(r, 'client-altsvc', 'advertise_alternative_service')
        else:
            wire_check(r.frames)      # when and where a server may advertise is C24's

    def do_reset():
        if not ms:
            return
        sid = rng.choice(sorted(ms))
        calls.append(('reset_stream', sid))
        r = t.call('reset_stream', sid, 8)
        wire_check(r.frames)
        if r.exc is None:
            ms[sid]['phase'] = 'reset'

    n = rng.randrange(10, 60)
    for _ in range(n):
        if not st['alive']:
            break
        if getattr(getattr(getattr(t.c, 'state_machine', None), 'state', None), 'name', '') == 'CLOSED':
            break
        op = rng.choice(['sh', 'sh', 'sh', 'sh', 'sh', 'sd', 'sd', 'sd', 'es', 'push', 'prio', 'alt', 'rst',
                         'p_open', 'p_open', 'p_push', 'p_rst', 'p_cont', 'p_cont', 'p_cont'])
        if e_client and op in ('push', 'alt') and rng.random() < 0.6:
            op = 'sh'         # these two end a client connection when refused; keep most client programs alive longer
        if op == 'sh':
            do_send_headers()
        elif op == 'sd':
            do_send_data(False)
        elif op == 'es':
            do_send_data(True)
        elif op == 'push':
            do_push()
        elif op == 'prio':
            do_prioritize()
        elif op == 'alt':
            do_altsvc()
        elif op == 'rst':
            if rng.random() < 0.4:
                do_reset()
        elif op == 'p_open':
            peer_open()
        elif op == 'p_push':
            peer_push()
        elif op == 'p_rst':
            if rng.random() < 0.3:
                peer_reset()
        elif op == 'p_cont':
            peer_continue()
    if st['judged']:
        rep.nontrivial(tuple(str(c) for c in calls))
    if idx % 499 == 0:
        rep.sample({'role': 'client' if e_client else 'server', 'upgraded': upgraded, 'calls': [str(c) for c in calls[:25]]})
