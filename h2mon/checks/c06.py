"""C06 - stream lifecycle follows the RFC 7540 section 5.1 state machine.

Bounded exhaustive enumeration.  For each role (client, server) and each start
(plain connection, h2c-upgraded stream 1) every sequence over a fixed alphabet
of local actions and received frames on a focus stream s = 1 and a promised
stream p = 2 is executed on the real H2Connection, up to the depth bound (the
first two symbols select the case, the rest is a depth-first search in which
each node works on a deep copy of its parent's connection).  A reference
machine written from RFC 7540 sections 5.1, 6.x and 8.1 (no import of h2, no use
of the library's transition table) is stepped alongside and yields, for the
action about to be taken, the set of allowed reactions:

  local action   : 'ok' | 'refused'        (refused = raises ProtocolError, emits nothing)
  received frame : 'accept' with an exact event-name list
                   | stream error  (RST_STREAM on that stream, no exception, codes from a set)
                   | connection error (exception + exactly one GOAWAY, codes from a set)
                   | 'ignore' (no events, no RST_STREAM / GOAWAY)

The observed reaction must be in the set; the machine then follows the branch
that was observed.  A connection error ends a branch.  A refused local action
sends nothing, so the model stays where it is and the sequence goes on (one
refusal per sequence, among its first 2 symbols, to bound
the tree); a probe right after the refusal checks that an action the state
permits still works.

Beyond the exhaustive depth, random walks of up to 14 symbols are judged the
same way (thorough tier: more of them).  Six walks in ten use further
realisations of the same symbols: padded DATA in both directions, a
WINDOW_UPDATE that takes the stream's send window to exactly 2^31-1 (the model
tracks the window: one octet more is a FLOW_CONTROL_ERROR), and header blocks
split over HEADERS / PUSH_PROMISE and CONTINUATION - while a block is open only
its own CONTINUATION may follow (and then counts as the whole frame); anything
else, a CONTINUATION carrying the rest of the block on another stream included,
is a connection error.
"""
import copy

import h2.config
import h2.connection
import h2.exceptions

from .. import core, wire
from ..scen import hb

LEVEL = 'exploration'
RULE = ('exhaustive: all sequences of length <= DEPTH (quick 4, thorough 5) over the per-role alphabet (32/33 symbols: local send_headers in each '
        'message role with/without END_STREAM, send_data, end_stream, reset_stream, push_stream, increment_flow_control_window, stream-bound advertise_alternative_service, cleanup; '
        'received HEADERS in each message role with/without END_STREAM, DATA, RST_STREAM, WINDOW_UPDATE, PUSH_PROMISE, ALTSVC, naked CONTINUATION; '
        'and a reduced set on the promised stream) x role x start (plain / upgraded); a connection error ends a branch; after a refused local action (at most one per sequence, among the first 2 symbols) the sequence goes on with the model unchanged; '
        'plus random walks of length <= 14 (most with padded DATA, WINDOW_UPDATE up to exactly 2^31-1 and header blocks split over CONTINUATION frames); every node = one reaction compared with the allowed set of the reference machine; '
        'non-trivial = node where the allowed set excluded at least one reaction class the library could have produced (always true) and '
        'the stream was not idle; distinct = the symbol sequence')
MINIMA = {'split_header_blocks_completed': 1000, 'frames_inside_open_header_block_judged': 500, 'nodes_judged': 100000, 'recv_accept_judged': 6000, 'recv_stream_error_judged': 3000, 'recv_conn_error_judged': 10000,
          'recv_ignore_judged': 2000, 'local_ok_judged': 5000, 'local_refused_judged': 10000, 'random_walk_nodes_judged': 5000}
EXHAUSTIVE = {'quick': True, 'thorough': True}

PROTOCOL_ERROR, FLOW_CONTROL_ERROR, STREAM_CLOSED, REFUSED_STREAM, CANCEL = 1, 3, 5, 7, 8

REQ = [(b':method', b'GET'), (b':scheme', b'https'), (b':authority', b'example.com'), (b':path', b'/')]
RESP = [(b':status', b'200')]
INFO = [(b':status', b'100')]
TRAILERS = [(b'x-trailer', b't')]

S, P, P2 = 1, 2, 4
MAX_REFUSALS = 1

# symbol = (name, kind 'L'|'R'|'X', stream)
CLIENT_ALPHABET = [
    ('L_req', 'L', S), ('L_req_es', 'L', S), ('L_trailers_es', 'L', S), ('L_trailers', 'L', S), ('L_data', 'L', S), ('L_data_es', 'L', S),
    ('L_end', 'L', S), ('L_rst', 'L', S), ('L_wu', 'L', S), ('L_push', 'L', S), ('X_cleanup', 'X', 0),
    ('R_info', 'R', S), ('R_info_es', 'R', S), ('R_resp', 'R', S), ('R_resp_es', 'R', S), ('R_trailers_es', 'R', S), ('R_trailers', 'R', S),
    ('R_data', 'R', S), ('R_data_es', 'R', S), ('R_rst', 'R', S), ('R_wu', 'R', S), ('R_pp', 'R', S), ('R_cont', 'R', S),
    ('R_resp', 'R', P), ('R_resp_es', 'R', P), ('R_data_es', 'R', P), ('R_rst', 'R', P), ('L_rst', 'L', P), ('L_req', 'L', P), ('R_pp', 'R', P),
    ('R_wu', 'R', P), ('R_altsvc', 'R', S),
]
SERVER_ALPHABET = [
    ('L_resp', 'L', S), ('L_resp_es', 'L', S), ('L_info', 'L', S), ('L_info_es', 'L', S), ('L_trailers_es', 'L', S), ('L_trailers', 'L', S),
    ('L_data', 'L', S), ('L_data_es', 'L', S), ('L_end', 'L', S), ('L_rst', 'L', S), ('L_wu', 'L', S), ('L_push', 'L', S), ('X_cleanup', 'X', 0),
    ('R_req', 'R', S), ('R_req_es', 'R', S), ('R_trailers_es', 'R', S), ('R_trailers', 'R', S), ('R_data', 'R', S), ('R_data_es', 'R', S),
    ('R_rst', 'R', S), ('R_wu', 'R', S), ('R_pp', 'R', S), ('R_cont', 'R', S),
    ('L_resp', 'L', P), ('L_resp_es', 'L', P), ('L_data_es', 'L', P), ('L_rst', 'L', P), ('R_rst', 'R', P), ('R_req', 'R', P), ('R_data', 'R', P),
    ('R_wu', 'R', P), ('L_push', 'L', P), ('L_altsvc', 'L', S),
]
ALPH = {True: CLIENT_ALPHABET, False: SERVER_ALPHABET}
# Realisations of the same symbols with other parameters, and header blocks split over HEADERS/PUSH_PROMISE + CONTINUATION; used by
# the random walks only.  '<sym>+pN' = the DATA frame padded with N octets; 'R_wu_max' = a WINDOW_UPDATE that takes the stream's
# send window to exactly 2^31-1; 'R_open:<sym>' = the first fragment of <sym>'s header block without END_HEADERS, completed by the
# next R_cont on that stream (anything else received in between is a connection error).
MAXW = 2 ** 31 - 1
CLIENT_EXTRA = [('L_data+p0', 'L', S), ('L_data+p255', 'L', S), ('L_data_es+p7', 'L', S), ('R_wu_max', 'R', S), ('R_wu_max', 'R', P),
                ('R_data+p7', 'R', S), ('R_data_es+p0', 'R', P),
                ('R_open:R_resp', 'R', S), ('R_open:R_resp_es', 'R', S), ('R_open:R_info', 'R', S), ('R_open:R_trailers_es', 'R', S),
                ('R_open:R_pp', 'R', S), ('R_open:R_resp', 'R', P), ('R_cont', 'R', P), ('R_iws_toggle', 'R', S)]
SERVER_EXTRA = [('L_data+p0', 'L', S), ('L_data+p255', 'L', S), ('L_data_es+p7', 'L', S), ('L_data_es+p255', 'L', P), ('R_wu_max', 'R', S),
                ('R_wu_max', 'R', P), ('R_data+p7', 'R', S),
                ('R_open:R_req', 'R', S), ('R_open:R_req_es', 'R', S), ('R_open:R_trailers_es', 'R', S), ('R_open:R_req', 'R', P),
                ('R_cont', 'R', P), ('R_iws_toggle', 'R', S)]
EXTRA = {True: CLIENT_EXTRA, False: SERVER_EXTRA}


def base_name(name):
    """The alphabet symbol whose expectations a realisation shares."""
    if '+p' in name:
        return name.split('+p')[0]
    if name.endswith('+big'):
        return name[:-4]
    if name == 'R_wu_max':
        return 'R_wu'
    return name


def pad_of(name):
    return int(name.split('+p')[1]) if '+p' in name else None
STARTS = ('plain', 'upgraded')


def depth_bound(tier):
    return 4 if tier == 'quick' else 5


def n_exhaustive_cases():
    return sum(len(ALPH[c]) ** 2 for c in (True, False)) * len(STARTS)


def n_random(tier):
    return 12000 if tier == 'quick' else 300000


def n_cases(tier):
    return n_exhaustive_cases() + n_random(tier)


# ----------------------------------------------------------------------------------------------- reference machine
def new_stream():
    # state: idle open hcl hcr closed resl resr ; by: who opened/promised it ('E'/'P') ; closed_by: rst_sent rst_recv end
    # sent / recv: 'none' (no final header block yet) 'final' 'done'
    return {'state': 'idle', 'by': None, 'closed_by': None, 'sent': 'none', 'recv': 'none', 'nohdr_data': False}


def new_model(client, start):
    m = {'client': client, 'st': {S: new_stream(), P: new_stream(), P2: new_stream()}, 'hi_in': 0, 'hi_out': 0,
         'win': {S: 65535, P: 65535, P2: 65535},     # E's send window per stream as the peer has granted it
         'block': None,                               # (stream, equivalent symbol, rest of the block) while a header block is open
         'iws': 65535}                                # the peer's INITIAL_WINDOW_SIZE as last announced
    if start == 'upgraded':
        s = m['st'][S]
        if client:
            s.update(state='hcl', by='E', sent='done')
            m['hi_out'] = 1
        else:
            s.update(state='hcr', by='P', recv='done')
            m['hi_in'] = 1
    return m


def clone_model(m):
    return {'client': m['client'], 'st': {k: dict(v) for k, v in m['st'].items()}, 'hi_in': m['hi_in'], 'hi_out': m['hi_out'],
            'refusals': m.get('refusals', 0), 'win': dict(m['win']), 'block': m['block'], 'iws': m['iws']}


def e_end(s):
    s['sent'] = 'done'
    if s['state'] == 'open':
        s['state'] = 'hcl'
    elif s['state'] == 'hcr':
        s['state'] = 'closed'
        s['closed_by'] = 'end'


def p_end(s):
    s['recv'] = 'done'
    if s['state'] == 'open':
        s['state'] = 'hcr'
    elif s['state'] == 'hcl':
        s['state'] = 'closed'
        s['closed_by'] = 'end'


ACCEPT, SERR, CERR, IGNORE = 'accept', 'stream-error', 'connection-error', 'ignore'


def expect_local(m, name, sid):
    """-> ('ok', apply_fn) | ('refused', None) | ('either', apply_fn_if_ok)"""
    pad = pad_of(name)
    name = base_name(name)
    if name in ('L_data', 'L_data_es'):
        v, fn = _expect_local(m, name, sid)
        cost = 3 + (0 if pad is None else pad + 1)
        if v == 'ok' and cost > m['win'][sid]:
            return 'refused', None            # FlowControlError: the peer's window (lowered by a SETTINGS frame, maybe) has no room

        def fn2(mm):
            mm['win'][sid] -= cost
            if fn:
                fn(mm)
        return v, (fn2 if fn is not None or v == 'ok' else None)
    return _expect_local(m, name, sid)


def _expect_local(m, name, sid):
    client = m['client']
    s = m['st'][sid]
    sendable = s['state'] in ('open', 'hcr')

    def ok(fn):
        return ('ok', fn)

    if name in ('L_req', 'L_req_es'):
        es = name.endswith('_es')
        # only a client, only on its own idle stream (a request block on an existing stream is a pseudo-header in trailers)
        if client and sid == S and s['state'] == 'idle':
            def fn(mm):
                x = mm['st'][sid]
                x.update(state='open', by='E', sent='final')
                mm['hi_out'] = max(mm['hi_out'], sid)
                if es:
                    e_end(x)
            return ok(fn)
        return ('refused', None)
    if name in ('L_resp', 'L_resp_es'):
        es = name.endswith('_es')
        if client:
            return ('refused', None)
        if s['state'] == 'resl' or (sendable and s['by'] == 'P' and s['sent'] == 'none' and not s['nohdr_data']):
            def fn(mm):
                x = mm['st'][sid]
                if x['state'] == 'resl':
                    x['state'] = 'hcr'
                x['sent'] = 'final'
                if es:
                    e_end(x)
            return ok(fn)
        if sendable and s['sent'] == 'none' and s['nohdr_data']:
            # DATA went out before any header block (C08 known finding): anything goes for this stream's headers
            return ('either', None)
        return ('refused', None)
    if name in ('L_info', 'L_info_es'):
        es = name.endswith('_es')
        if client or es:
            return ('refused', None)
        if sendable and s['by'] == 'P' and s['sent'] == 'none' and not s['nohdr_data']:
            return ok(lambda mm: None)
        if s['state'] == 'resl' or (sendable and s['sent'] == 'none' and s['nohdr_data']):
            # 1xx on a promised stream before its response: not settled by the statement; after DATA-before-headers anything goes
            return ('either', None)
        return ('refused', None)
    if name in ('L_trailers_es', 'L_trailers'):
        es = name.endswith('_es')
        if sendable and s['sent'] == 'final' and es:
            return ok(lambda mm: e_end(mm['st'][sid]))
        return ('refused', None)
    if name in ('L_data', 'L_data_es', 'L_end'):
        es = name != 'L_data'
        if sendable and s['sent'] == 'final':
            return ok((lambda mm: e_end(mm['st'][sid])) if es else (lambda mm: None))
        if sendable and s['sent'] == 'none' and not client:
            # a server sending DATA before its response headers: should be refused, the library lets it through (C08 known finding)
            def fn(mm):
                x = mm['st'][sid]
                x['nohdr_data'] = True
                if es:
                    e_end(x)
            return ('either', fn)
        return ('refused', None)
    if name == 'L_rst':
        if s['state'] in ('idle', 'closed'):
            return ('refused', None)

        def fn(mm):
            mm['st'][sid].update(state='closed', closed_by='rst_sent')
        return ok(fn)
    if name == 'L_wu':
        if s['state'] in ('open', 'hcl'):
            return ok(lambda mm: None)
        if s['state'] in ('hcr', 'resr', 'resl'):
            return ('either', lambda mm: None)
        return ('refused', None)
    if name == 'L_altsvc':
        # when a stream-bound advertisement is allowed is C24's question; here: whatever the outcome, the stream state is untouched
        return ('either', lambda mm: None)
    if name == 'L_push':
        if client:
            return ('refused', None)
        # on S: promises P; on P (a pushed stream): promises P2 and must be refused
        if sid == S and sendable and s['by'] == 'P' and m['st'][P]['state'] == 'idle':
            def fn(mm):
                mm['st'][P].update(state='resl', by='E')
                mm['hi_out'] = max(mm['hi_out'], P)
            return ok(fn)
        return ('refused', None)
    raise ValueError(name)


def expect_recv(m, name, sid):
    """-> list of allowed reactions: (class, detail, apply_fn)
       accept: detail = exact event-name list; stream-error: detail = set of codes; connection-error: set of codes; ignore: None"""
    if '+' in name:
        name = base_name(name)
    client = m['client']
    s = m['st'][sid]
    state = s['state']
    perr = [(CERR, {PROTOCOL_ERROR}, None)]
    perr_or_serr = [(CERR, {PROTOCOL_ERROR}, None), (SERR, {PROTOCOL_ERROR}, 'close_rst_sent')]

    def closed_reaction(frame):
        cb = s['closed_by']
        if cb in ('rst_sent', 'rst_recv'):
            return [(SERR, {STREAM_CLOSED}, None), (IGNORE, None, None)]
        if frame == 'DATA':
            # documented leniency (CHANGELOG 3.2.0): DATA on closed streams is answered with RST_STREAM (and the connection
            # window is topped up) whatever closed the stream
            return [(CERR, {STREAM_CLOSED}, None), (SERR, {STREAM_CLOSED}, None)]
        return [(CERR, {STREAM_CLOSED}, None)]

    def close_rst_sent(mm):
        mm['st'][sid].update(state='closed', closed_by='rst_sent')

    def close_rst_sent_either(mm, target=None):
        if target is not None and mm['st'][target]['state'] != 'closed':
            mm['st'][target].update(state='closed', closed_by='rst_sent')

    def fix(lst):
        out = []
        for c, d, f in lst:
            out.append((c, d, close_rst_sent if f == 'close_rst_sent' else f))
        return out

    if name == 'R_altsvc':
        # never an error, never a state change (RFC 7838 4: an ALTSVC frame that cannot be used is ignored)
        return [(ACCEPT, ['AlternativeServiceAvailable'], lambda mm: None), (IGNORE, None, None)]
    if name == 'R_cont':
        return perr
    if name == 'R_pp':
        if not client:
            return perr
        # PUSH_PROMISE on S promising P; on P (a pushed stream) promising P2
        promised = P if sid == S else P2
        if sid == P:
            # pushes on pushed streams are refused; when E itself reset that pushed stream the frame raced the reset and the
            # new promised stream may simply be refused (C20)
            if state == 'closed' and s['closed_by'] == 'rst_sent':
                def fnp(mm):
                    if mm['st'][promised]['state'] == 'idle':
                        mm['st'][promised].update(state='closed', closed_by='rst_sent', by='P')
                return perr + [(SERR, {REFUSED_STREAM, CANCEL}, fnp, {promised})]
            return perr
        if state == 'idle':
            return perr
        if state in ('open', 'hcl'):
            if m['st'][promised]['state'] != 'idle':
                # a promised id that was used before: how it is classified is C09's question; here only "some error, no event"
                both = {sid, promised}
                return [(CERR, {PROTOCOL_ERROR, STREAM_CLOSED}, None), (SERR, {PROTOCOL_ERROR, STREAM_CLOSED}, close_rst_sent_either, both)]

            def fn(mm):
                mm['st'][promised].update(state='resr', by='P')
                mm['hi_in'] = max(mm['hi_in'], promised)
            return [(ACCEPT, ['PushedStreamReceived'], fn)]
        if state == 'hcr':
            # RFC 6.6: neither open nor half-closed(local) => connection error PROTOCOL_ERROR; RFC 5.1 half-closed(remote) => stream error
            # STREAM_CLOSED for "additional frames": both readings are accepted
            return fix(perr_or_serr) + [(SERR, {STREAM_CLOSED}, close_rst_sent), (CERR, {STREAM_CLOSED}, None)]
        if state == 'closed':
            if s['closed_by'] == 'rst_sent':
                # in flight when E reset the parent: refuse the promised stream (RST_STREAM on it), no event
                def fn(mm):
                    if mm['st'][promised]['state'] == 'idle':
                        mm['st'][promised].update(state='closed', closed_by='rst_sent', by='P')
                        mm['hi_in'] = max(mm['hi_in'], promised)
                return [(SERR, {REFUSED_STREAM, CANCEL}, fn, {promised})]
            return perr + [(CERR, {STREAM_CLOSED}, None)]
        return perr
    if name == 'R_rst':
        if state == 'idle':
            return perr
        if state == 'closed':
            return [(IGNORE, None, None)]

        def fn(mm):
            mm['st'][sid].update(state='closed', closed_by='rst_recv')
        return [(ACCEPT, ['StreamReset'], fn)]
    if name == 'R_iws_toggle':
        new_iws = 0 if m['iws'] else 65535

        def fn(mm):
            for k in mm['win']:
                mm['win'][k] += new_iws - mm['iws']
            mm['iws'] = new_iws
        if any(v['state'] not in ('idle', 'closed') and m['win'][k] + new_iws - m['iws'] > MAXW for k, v in m['st'].items()):
            return [(CERR, {FLOW_CONTROL_ERROR}, None)]          # RFC 7540 6.9.2: a stream window pushed past 2^31-1
        return [(ACCEPT, ['RemoteSettingsChanged'], fn)]
    if name in ('R_wu', 'R_wu_max'):
        inc = 5 if name == 'R_wu' else min(MAXW, max(1, MAXW - m['win'][sid]))
        if state == 'idle':
            return perr
        if state == 'closed':
            return [(IGNORE, None, None)]

        def credit(mm):
            mm['win'][sid] += inc
        if m['win'][sid] + inc > MAXW:
            # RFC 7540 6.9.1: a stream window pushed past 2^31-1 is a stream error FLOW_CONTROL_ERROR (or a connection error)
            over = [(SERR, {FLOW_CONTROL_ERROR}, close_rst_sent), (CERR, {FLOW_CONTROL_ERROR}, None)]
            return over + (perr if state == 'resr' else [])
        if state == 'resr':
            # reserved(remote): the peer may not send WINDOW_UPDATE (RFC 5.1); the stream has no send side at E
            return perr + [(ACCEPT, ['WindowUpdated'], credit)]
        return [(ACCEPT, ['WindowUpdated'], credit)]
    if name in ('R_data', 'R_data_es'):
        es = name.endswith('_es')
        if state == 'idle':
            return perr
        if state in ('resl', 'resr'):
            return fix(perr_or_serr) + [(SERR, {STREAM_CLOSED}, close_rst_sent)]
        if state == 'hcr':
            return [(SERR, {STREAM_CLOSED}, close_rst_sent)]
        if state == 'closed':
            return closed_reaction('DATA')
        # open / hcl
        if s['recv'] == 'final':
            def fn(mm):
                if es:
                    p_end(mm['st'][sid])
            return [(ACCEPT, ['DataReceived'] + (['StreamEnded'] if es else []), fn)]
        return fix(perr_or_serr)           # DATA before the (final) header block
    # HEADERS in some message role
    kind = {'R_req': 'request', 'R_req_es': 'request', 'R_resp': 'response', 'R_resp_es': 'response', 'R_info': 'info', 'R_info_es': 'info',
            'R_trailers': 'trailers', 'R_trailers_es': 'trailers'}[name]
    es = name.endswith('_es')
    if state == 'hcr':
        if kind == 'info':
            # a 1xx after the peer's END_STREAM is also a malformed message (RFC 7540 8.1): PROTOCOL_ERROR accepted as well
            return [(SERR, {STREAM_CLOSED}, close_rst_sent)] + fix(perr_or_serr)
        return [(SERR, {STREAM_CLOSED}, close_rst_sent)]
    if state == 'closed':
        if kind == 'info' and es:
            # a 1xx block carrying END_STREAM is malformed in itself (RFC 7540 8.1): PROTOCOL_ERROR is accepted in any state
            return closed_reaction('HEADERS') + perr
        return closed_reaction('HEADERS')
    if not client:
        # server E
        if sid == P or state == 'resl':
            # HEADERS from the client on a stream E promised (or an even id it never saw): PROTOCOL_ERROR
            return perr
        if state == 'idle':
            if kind == 'request':
                def fn(mm):
                    x = mm['st'][sid]
                    x.update(state='open', by='P', recv='final')
                    mm['hi_in'] = max(mm['hi_in'], sid)
                    if es:
                        p_end(x)
                return [(ACCEPT, ['RequestReceived'] + (['StreamEnded'] if es else []), fn)]
            return perr            # a block without request pseudo-headers cannot open a stream
        # open / hcl
        if kind == 'trailers' and es and s['recv'] == 'final':
            return [(ACCEPT, ['TrailersReceived', 'StreamEnded'], lambda mm: p_end(mm['st'][sid]))]
        return fix(perr_or_serr)
    # client E
    if state == 'idle':
        return perr
    if state == 'resr':
        if kind == 'response':
            def fn(mm):
                x = mm['st'][sid]
                x.update(state='hcl', recv='final')
                if es:
                    p_end(x)
            return [(ACCEPT, ['ResponseReceived'] + (['StreamEnded'] if es else []), fn)]
        if kind == 'info' and not es:
            return fix(perr_or_serr) + [(ACCEPT, ['InformationalResponseReceived'], lambda mm: None)]
        return fix(perr_or_serr)
    # open / hcl on the client's own stream
    if s['recv'] == 'none':
        if kind == 'info':
            if es:
                return fix(perr_or_serr)
            return [(ACCEPT, ['InformationalResponseReceived'], lambda mm: None)]
        if kind == 'response':
            def fn(mm):
                x = mm['st'][sid]
                x['recv'] = 'final'
                if es:
                    p_end(x)
            return [(ACCEPT, ['ResponseReceived'] + (['StreamEnded'] if es else []), fn)]
        return fix(perr_or_serr)
    if s['recv'] == 'final':
        if kind == 'trailers' and es:
            return [(ACCEPT, ['TrailersReceived', 'StreamEnded'], lambda mm: p_end(mm['st'][sid]))]
        return fix(perr_or_serr)
    return fix(perr_or_serr)


# ----------------------------------------------------------------------------------------------- executing one symbol on the real code
def block_of(name, sid):
    """(frame type, header block, END_STREAM) of a header-bearing symbol."""
    base = name[:-3] if name.endswith('_es') else name
    hs = {'R_req': REQ, 'R_resp': RESP, 'R_info': INFO, 'R_trailers': TRAILERS, 'R_pp': REQ}[base]
    return ('PUSH_PROMISE' if base == 'R_pp' else 'HEADERS'), hb(hs), name.endswith('_es')


def frame_for(client, name, sid, m=None):
    if name.startswith('R_open:'):
        kind, block, es = block_of(name[7:], sid)
        cut = max(1, len(block) // 2)
        if kind == 'PUSH_PROMISE':
            return wire.build_push_promise(sid, P if sid == S else P2, block[:cut], end_headers=False)
        return wire.build_headers(sid, block[:cut], end_stream=es, end_headers=False)
    if name == 'R_cont' and m is not None and m['block'] is not None:
        # the rest of the open block - also when the frame names another stream, where it must not be taken for it
        return wire.build_continuation(sid, m['block'][2])
    if '+p' in name:
        return wire.build_data(sid, b'abc', end_stream=base_name(name).endswith('_es'), pad=pad_of(name))
    if name.endswith('+big'):
        return wire.build_data(sid, b'B' * 16384)
    if name == 'R_iws_toggle':
        return wire.build_settings([(4, 0 if m['iws'] else 65535)])
    if name == 'R_wu_max':
        return wire.build_window_update(sid, min(MAXW, max(1, MAXW - m['win'][sid])))
    if name in ('R_req', 'R_req_es'):
        return wire.build_headers(sid, hb(REQ), end_stream=name.endswith('_es'))
    if name in ('R_resp', 'R_resp_es'):
        return wire.build_headers(sid, hb(RESP), end_stream=name.endswith('_es'))
    if name in ('R_info', 'R_info_es'):
        return wire.build_headers(sid, hb(INFO), end_stream=name.endswith('_es'))
    if name in ('R_trailers', 'R_trailers_es'):
        return wire.build_headers(sid, hb(TRAILERS), end_stream=name.endswith('_es'))
    if name in ('R_data', 'R_data_es'):
        return wire.build_data(sid, b'abc', end_stream=name.endswith('_es'))
    if name == 'R_rst':
        return wire.build_rst(sid, CANCEL)
    if name == 'R_wu':
        return wire.build_window_update(sid, 5)
    if name == 'R_pp':
        return wire.build_push_promise(sid, P if sid == S else P2, hb(REQ))
    if name == 'R_cont':
        return wire.build_continuation(sid, hb(TRAILERS))
    if name == 'R_altsvc':
        return wire.build_altsvc(sid, b'', b'h2=":8443"')
    raise ValueError(name)


def do_local(conn, name, sid):
    if '+p' in name:
        return conn.send_data(sid, b'xyz', end_stream=base_name(name).endswith('_es'), pad_length=pad_of(name))
    if name in ('L_req', 'L_req_es'):
        return conn.send_headers(sid, REQ, end_stream=name.endswith('_es'))
    if name in ('L_resp', 'L_resp_es'):
        return conn.send_headers(sid, RESP, end_stream=name.endswith('_es'))
    if name in ('L_info', 'L_info_es'):
        return conn.send_headers(sid, INFO, end_stream=name.endswith('_es'))
    if name in ('L_trailers', 'L_trailers_es'):
        return conn.send_headers(sid, TRAILERS, end_stream=name.endswith('_es'))
    if name == 'L_data':
        return conn.send_data(sid, b'xyz')
    if name == 'L_data_es':
        return conn.send_data(sid, b'xyz', end_stream=True)
    if name == 'L_end':
        return conn.end_stream(sid)
    if name == 'L_rst':
        return conn.reset_stream(sid, CANCEL)
    if name == 'L_wu':
        return conn.increment_flow_control_window(3, sid)
    if name == 'L_push':
        return conn.push_stream(sid, P if sid == S else P2, REQ)
    if name == 'L_altsvc':
        return conn.advertise_alternative_service(b'h2=":8443"', stream_id=sid)
    raise ValueError(name)


def start_conn(client, start):
    conn = h2.connection.H2Connection(config=h2.config.H2Configuration(client_side=client))
    if start == 'upgraded':
        if client:
            conn.initiate_upgrade_connection()
            conn.data_to_send()
            conn.receive_data(wire.build_settings([]))
        else:
            conn.initiate_upgrade_connection(b'')
            conn.data_to_send()
            conn.receive_data(wire.PREFACE + wire.build_settings([]))
    else:
        conn.initiate_connection()
        conn.data_to_send()
        conn.receive_data((b'' if client else wire.PREFACE) + wire.build_settings([]))
        conn.receive_data(wire.build_settings(ack=True))
    conn.data_to_send()
    return conn


class Judge(object):
    def __init__(self, rep, client, start, refusal_prefix=99):
        self.rep = rep
        self.client = client
        self.start = start
        # a sequence goes on after a refused local action only when the refusal is among its first refusal_prefix symbols
        self.refusal_prefix = refusal_prefix

    def fail(self, key, what, path, extra=None):
        w = {'role': 'client' if self.client else 'server', 'start': self.start, 'sequence': ['%s@%d' % (n, s) for n, _, s in path],
             'what': what}
        if extra:
            w.update(extra)
        self.rep.violation(key, what, w)

    def step(self, conn, m, sym, path, counter_prefix=''):
        """Execute sym on conn (in place), judge, update m in place.  Returns True when the branch may continue."""
        name, kind, sid = sym
        rep = self.rep
        client = self.client
        if kind == 'X':
            try:
                conn.open_outbound_streams
                conn.open_inbound_streams
            except Exception as e:      # noqa
                self.fail('C06:cleanup-raises:' + core.exc_key(e), repr(e), path)
                return False
            return True
        if kind == 'L':
            verdict, fn = expect_local(m, name, sid)
            exc = None
            try:
                do_local(conn, name, sid)
            except Exception as e:      # noqa
                exc = e
            out = conn.data_to_send()
            frames, _ = wire.parse_frames(out) if out else ([], None)
            rep.count('nodes_judged')
            if counter_prefix:
                rep.count(counter_prefix + 'nodes_judged')
            state = m['st'][sid]['state']
            cell = 'local:%s:%s' % (name, state)
            if exc is not None and not isinstance(exc, h2.exceptions.ProtocolError):
                self.fail('C06:local-action-wrong-exception:%s:%s' % (name, core.exc_key(exc)), repr(exc), path)
                return False
            if exc is not None and frames:
                self.fail('C06:refused-local-action-emitted-frames:%s' % name, str([f.brief() for f in frames]), path)
                return False
            if verdict == 'ok':
                rep.count('local_ok_judged')
                if exc is not None:
                    self.fail('C06:permitted-local-action-refused:%s:in-%s' % (name, state),
                              '%s on stream %d in model state %r raised %r' % (name, sid, m['st'][sid], exc), path)
                    return False
                fn(m)
                return True
            if verdict == 'refused':
                rep.count('local_refused_judged')
                if exc is None:
                    self.fail('C06:forbidden-local-action-accepted:%s:in-%s' % (name, state),
                              '%s on stream %d in model state %r succeeded, emitted %s' % (name, sid, m['st'][sid], [f.brief() for f in frames]), path)
                    return False
                # nothing was sent, so the RFC state is unchanged: the model stays where it is and the branch goes on (at most
                # MAX_REFUSALS refused actions per sequence, to bound the tree); one probe checks usability right away
                self.probe_after_refusal(conn, m, sid, path)
                m['refusals'] = m.get('refusals', 0) + 1
                return m['refusals'] <= MAX_REFUSALS and len(path) <= self.refusal_prefix
            rep.count('local_either_not_judged')
            rep.observe('undetermined_cells', cell + (':ok' if exc is None else ':refused'))
            if exc is None and fn is not None:
                fn(m)
                return True
            return False
        # received frame
        blk = m['block']
        data = frame_for(client, name, sid, m)
        if blk is not None:
            # a header block is open: only its CONTINUATION may follow (RFC 7540 6.10), which then counts as the whole frame
            if name == 'R_cont' and sid == blk[0]:
                allowed = expect_recv(m, blk[1], sid)
                rep.count('split_header_blocks_completed')
            else:
                allowed = [(CERR, {PROTOCOL_ERROR}, None)]
                rep.count('frames_inside_open_header_block_judged')
            m['block'] = None
        elif name.startswith('R_open:'):
            kind, block, es = block_of(name[7:], sid)
            rest = block[max(1, len(block) // 2):]

            def opened(mm):
                mm['block'] = (sid, name[7:], rest)
            allowed = [(IGNORE, None, opened)]
        else:
            allowed = expect_recv(m, name, sid)
        exc = None
        events = []
        try:
            events = conn.receive_data(data)
        except Exception as e:      # noqa
            exc = e
        out = conn.data_to_send()
        frames, _ = wire.parse_frames(out) if out else ([], None)
        rep.count('nodes_judged')
        if counter_prefix:
            rep.count(counter_prefix + 'nodes_judged')
        state = m['st'][sid]['state']
        names = [type(e).__name__ for e in events]
        rsts = [f for f in frames if f.type == wire.RST_STREAM]
        goaways = [f for f in frames if f.type == wire.GOAWAY]
        if exc is not None:
            if not isinstance(exc, h2.exceptions.ProtocolError):
                self.fail('C06:received-frame-wrong-exception:%s:%s' % (name, core.exc_key(exc)), repr(exc), path)
                return False
            code = int(getattr(exc, 'error_code', -1))
            observed = (CERR, code)
            if len(goaways) != 1 or goaways[0].error_code != code:
                self.fail('C06:connection-error-without-matching-GOAWAY:%s' % name, 'exc %r frames %s' % (exc, [f.brief() for f in frames]), path)
                return False
        elif rsts:
            observed = (SERR, rsts[0].error_code, rsts[0].stream_id)
        elif names:
            observed = (ACCEPT, names)
        else:
            observed = (IGNORE, None)
        for a in allowed:
            cls, detail, fn = a[0], a[1], a[2]
            targets = a[3] if len(a) > 3 else {sid}
            if cls != observed[0]:
                continue
            if cls == CERR and observed[1] in detail:
                rep.count('recv_conn_error_judged')
                return False
            if cls == SERR and observed[1] in detail and observed[2] in targets and len(rsts) == 1 and \
                    all(n == 'StreamReset' for n in names):
                rep.count('recv_stream_error_judged')
                if fn:
                    if fn.__code__.co_argcount == 2:
                        fn(m, observed[2])
                    else:
                        fn(m)
                return True
            if cls == ACCEPT and observed[1] == detail and not goaways:
                rep.count('recv_accept_judged')
                if fn:
                    fn(m)
                return True
            if cls == IGNORE and not goaways:
                rep.count('recv_ignore_judged')
                if fn:
                    fn(m)
                return True
        want = ' | '.join('%s%s' % (a[0], '' if a[1] is None else ':%s' % (sorted(a[1]) if isinstance(a[1], set) else a[1])) for a in allowed)
        if observed[0] == CERR:
            got = 'connection-error:%d' % observed[1]
        elif observed[0] == SERR:
            got = 'stream-error:%d' % observed[1]
        elif observed[0] == ACCEPT:
            got = 'accept:%s' % ','.join(names)
        else:
            got = 'ignore'
        closed_by = m['st'][sid]['closed_by']
        self.fail('C06:reaction-outside-allowed-set:%s:in-%s%s:got-%s' % (name + ('@P' if sid != S else ''), state,
                                                                          ('(%s)' % closed_by) if closed_by else '', got),
                  '%s on stream %d in model state %r: observed %s (frames %s), allowed %s' %
                  (name, sid, m['st'][sid], got, [f.brief() for f in frames], want), path)
        return False

    def probe_after_refusal(self, conn, m, sid, path):
        """After a refused local action nothing was sent, so the RFC state is unchanged: an action the state permits must still work."""
        s = m['st'][sid]
        if s['state'] in ('idle', 'closed'):
            return
        cand = None
        for name in ('L_rst',):
            v, fn = expect_local(m, name, sid)
            if v == 'ok':
                cand = name
        if cand is None:
            return
        c2 = copy.deepcopy(conn)
        self.rep.count('usable_after_refusal_probed')
        try:
            do_local(c2, cand, sid)
        except h2.exceptions.ProtocolError as e:
            self.fail('C06:stream-unusable-after-refused-local-action',
                      'after %s was refused (nothing sent), %s on stream %d in model state %r raised %r' %
                      (path[-1][0], cand, sid, s, e), path)
        except Exception as e:      # noqa
            self.fail('C06:local-action-wrong-exception:%s:%s' % (cand, core.exc_key(e)), repr(e), path)


def dfs(j, conn, m, path, depth, maxdepth, alphabet):
    for sym in alphabet:
        c2 = copy.deepcopy(conn)
        m2 = clone_model(m)
        p2 = path + [sym]
        cont = j.step(c2, m2, sym, p2)
        if any(v['state'] != 'idle' for v in m2['st'].values()):
            j.rep.distinct.add(core.h64(tuple((n, s) for n, _, s in p2)))
        if cont and depth + 1 < maxdepth:
            dfs(j, c2, m2, p2, depth + 1, maxdepth, alphabet)


def run_case(idx, rng, tier, rep):
    nex = n_exhaustive_cases()
    if idx < nex:
        # decode idx -> (client, start, a1, a2)
        k = idx
        for client in (True, False):
            n = len(ALPH[client]) ** 2 * len(STARTS)
            if k < n:
                break
            k -= n
        alphabet = ALPH[client]
        start = STARTS[k // (len(alphabet) ** 2)]
        k %= len(alphabet) ** 2
        a1, a2 = alphabet[k // len(alphabet)], alphabet[k % len(alphabet)]
        j = Judge(rep, client, start, refusal_prefix=2)
        conn = start_conn(client, start)
        m = new_model(client, start)
        path = []
        # the two prefix symbols are judged too (each prefix of length 1 is judged in several cases; verdicts are the same)
        for sym in (a1, a2):
            path = path + [sym]
            if not j.step(conn, m, sym, path):
                return
        maxdepth = depth_bound(tier)
        if maxdepth > 2:
            dfs(j, conn, m, path, 2, maxdepth, alphabet)
        if idx % 401 == 0:
            rep.sample({'role': 'client' if client else 'server', 'start': start, 'prefix': ['%s@%d' % (a1[0], a1[2]), '%s@%d' % (a2[0], a2[2])],
                        'explored': 'every continuation up to length %d' % maxdepth})
        return
    # random walk
    client = rng.random() < 0.5
    start = rng.choice(STARTS)
    alphabet = ALPH[client]
    extended = rng.random() < 0.6
    if extended:
        alphabet = alphabet + EXTRA[client] * 2
        rep.count('random_walks_with_parameter_variants_and_split_blocks')
    j = Judge(rep, client, start)
    conn = start_conn(client, start)
    m = new_model(client, start)
    path = []
    # bias towards symbols that keep the walk alive: retry a few times when the model predicts a dead end
    def keeps_going(cand):
        if cand[1] == 'L':
            return expect_local(m, cand[0], cand[2])[0] != 'refused'
        if cand[1] == 'R':
            if m['block'] is not None:
                return cand[0] == 'R_cont' and cand[2] == m['block'][0]
            if cand[0].startswith('R_open:'):
                return True
            return not all(a[0] == CERR for a in expect_recv(m, cand[0], cand[2]))
        return True

    for _ in range(14):
        dead = [k for k, v in m['st'].items() if v['state'] == 'hcr' or (v['state'] == 'closed' and v['closed_by'] in ('rst_sent', 'rst_recv'))]
        if extended and dead and m['block'] is None and rng.random() < 0.35:
            # full-size DATA frames on a stream that can take no more DATA: each is answered like the first one, however many come
            sym = ('R_data+big', 'R', rng.choice(dead))
            rep.count('full_size_data_frames_on_dead_streams')
        elif extended and m['iws'] and m['win'][S] < m['iws'] <= 65535 and m['st'][S]['state'] in ('open', 'hcr') and m['block'] is None \
                and rng.random() < 0.3:
            sym = ('R_iws_toggle', 'R', S)        # octets are in flight on S: a window of 0 now means a negative one for S
        elif extended and m['win'][S] <= 0 and m['st'][S]['state'] in ('open', 'hcr') and m['block'] is None and rng.random() < 0.4:
            # the peer has taken the send window away (to zero or below): ending the stream costs no window and still works
            sym = ('L_end', 'L', S)
            rep.count('stream_ended_locally_with_no_send_window_left')
        elif m['block'] is not None and rng.random() < 0.25:
            # the continuation arrives on another stream than the block it would continue
            sym = ('R_cont', 'R', rng.choice([x for x in (S, P, P2) if x != m['block'][0]]))
        elif rng.random() < 0.9:
            live = [c for c in alphabet if keeps_going(c)]
            sym = rng.choice(live or alphabet)
        else:
            sym = rng.choice(alphabet)
        path = path + [sym]
        if not j.step(conn, m, sym, path, counter_prefix='random_walk_'):
            break
    if len(path) > depth_bound(tier):
        rep.count('random_walks_longer_than_exhaustive_depth')
    rep.distinct.add(core.h64(tuple((n, s) for n, _, s in path)))
    if idx % 997 == 0:
        rep.sample({'role': 'client' if client else 'server', 'start': start, 'random_walk': ['%s@%d' % (n, s) for n, _, s in path]})
