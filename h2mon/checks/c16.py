"""C16 - Content-Length is enforced as RFC 7540 section 8.1.2.6 requires.

Oracle (independent of the library): a message is malformed iff content-length is
present and differs from the sum of DATA payload lengths (padding excluded);
for responses defined to have no content (to HEAD requests - also when the HEAD
request sent trailers -, 204, 304) it is malformed iff any DATA payload byte is
present, whatever content-length says.  Malformed => rejected (ProtocolError, or
RST_STREAM on that stream) no later than the frame carrying END_STREAM;
well-formed => every event delivered including StreamEnded, no error.
"""
import itertools

import h2.exceptions

from .. import core, scen, wire
from ..scen import hb

LEVEL = 'exploration'
RULE = ('grid (exhaustive every run): direction {request->server, response->client} x request method {GET,HEAD,POST} x status '
        '{200,204,304,404,100-then-200,103-with-its-own-content-length-then-200} x content-length {absent,0,n,n-1,n+1} x body n in {0,1,10} split into 1-3 DATA frames '
        '(empty frame first/last) x padding {none,0,7} x END_STREAM on {HEADERS, last DATA, extra empty DATA, trailers} x HEAD '
        'request trailers {no,yes}; plus random larger bodies and chunkings (6000 quick, 400000 thorough), 40% of them with a refused local call (header '
        'block naming another method, trailers without END_STREAM, invalid response) made on the stream before the message arrives, and under varying receive-side configuration (header_encoding, inbound validation / normalisation) and '
        'target naming (:authority or host); non-trivial = message reached its '
        'END_STREAM frame or was rejected and the verdict was compared; distinct = grid cell')
MINIMA = {'messages_judged': 3000, 'malformed_expected': 800, 'wellformed_expected': 800, 'no_content_responses': 300, 'informational_with_content_length': 300, 'refused_local_call_before_the_message': 250, 'messages_under_non_default_configuration': 1000, 'promise_with_another_method_before_the_response': 80}
EXHAUSTIVE = {}

METHODS = [b'GET', b'HEAD', b'POST']
STATUSES = ['200', '204', '304', '404', '100+200', '103cl+200']
CLS = ['absent', '0', 'n', 'n-1', 'n+1']
BODIES = [0, 1, 10]
SPLITS = ['one', 'two', 'three', 'empty-first', 'empty-last']
PADS = [None, 0, 7]
ES = ['headers', 'last-data', 'extra-empty-data', 'trailers']


def build_grid():
    g = []
    # requests to a server
    for m, cl, n, sp, pad, es in itertools.product(METHODS, CLS, BODIES, SPLITS, PADS, ES):
        if es == 'headers' and (n or sp != 'one' or pad is not None):
            continue
        if n == 0 and sp not in ('one',):
            continue
        g.append(('request', m, None, cl, n, sp, pad, es, False))
    # responses to a client
    for m, stt, cl, n, sp, pad, es, tr in itertools.product(METHODS, STATUSES, CLS, BODIES, ['one', 'two', 'empty-last'], PADS, ES,
                                                            [False, True]):
        if tr and m != b'HEAD':
            continue
        if es == 'headers' and (n or sp != 'one' or pad is not None):
            continue
        if n == 0 and sp != 'one':
            continue
        g.append(('response', m, stt, cl, n, sp, pad, es, tr))
    return g


GRID = build_grid()


def n_cases(tier):
    return len(GRID) + (6000 if tier == 'quick' else 400000)


def clval(cl, n):
    return {'absent': None, '0': 0, 'n': n, 'n-1': n - 1, 'n+1': n + 1}[cl]


def chunks(n, sp):
    if sp == 'one':
        return [n]
    if sp == 'two':
        return [n // 2, n - n // 2]
    if sp == 'three':
        a = n // 3
        return [a, a, n - 2 * a]
    if sp == 'empty-first':
        return [0, n]
    return [n, 0]


def run_case(idx, rng, tier, rep):
    if idx < len(GRID):
        return run_cell(GRID[idx], rep, 'grid')
    # random larger bodies
    direction = rng.choice(['request', 'response'])
    m = rng.choice(METHODS)
    stt = rng.choice(STATUSES) if direction == 'response' else None
    n = rng.choice([0, 1, 2, 100, 1000, 16384, 20000])
    cl = rng.choice(CLS)
    k = rng.randrange(1, 6)
    cuts = sorted(rng.randrange(0, n + 1) for _ in range(k - 1))
    parts = [b - a for a, b in zip([0] + cuts, cuts + [n])]
    pad = rng.choice([None, 0, 7, 255])
    # every DATA frame must fit the default MAX_FRAME_SIZE including its padding (an oversized frame is
    # refused with FRAME_SIZE_ERROR whatever the content-length says, which is not this property's business)
    room = 16384 - (0 if pad is None else pad + 1)
    fitted = []
    for part in parts:
        while part > room:
            fitted.append(room)
            part -= room
        fitted.append(part)
    parts = fitted
    noise = rng.choice(NOISE) if rng.random() < 0.4 else None
    # receive-side configuration and the way the request names its target say nothing about the length of the body
    variant = (rng.choice([None, None, 'utf-8']), rng.random() < 0.8, rng.random() < 0.8, rng.choice(['authority', 'authority', 'host']))
    cell = (direction, m, stt, cl, n, tuple(parts), pad, rng.choice(ES),
            direction == 'response' and m == b'HEAD' and rng.random() < 0.5, noise, variant)
    if cell[7] == 'headers' and n:
        return
    return run_cell(cell, rep, 'random')


NOISE = ['headers-with-another-method', 'headers-with-another-method-on-open-stream', 'trailers-without-end-stream',
         'invalid-response', 'response-without-status', 'promise-with-another-method', 'promise-with-another-method']


def refused(t, rep, *call, **kw):
    """A local call that must be refused; what it carried must not influence how the peer's message is judged."""
    r = t.call(*call, **kw)
    if r.exc is None:
        rep.count('noise_call_accepted')
        return False
    rep.count('refused_local_call_before_the_message')
    return True


def run_cell(cell, rep, layer):
    direction, method, status, cl, n, sp, pad, es, head_trailers = cell[:9]
    noise = cell[9] if len(cell) > 9 else None
    enc, validate, normalize, naming = cell[10] if len(cell) > 10 else (None, True, True, 'authority')
    clv = clval(cl, n)
    if clv is not None and clv < 0:
        return          # negative content-length: undetermined class, not generated
    parts = list(sp) if isinstance(sp, tuple) else chunks(n, sp)
    if es == 'headers':
        parts = []
    e_client = direction == 'response'
    cfg = {}
    if len(cell) > 10:
        cfg = dict(header_encoding=enc, validate_inbound_headers=validate, normalize_inbound_headers=normalize)
        rep.count('messages_under_non_default_configuration' if (enc or not validate or not normalize or naming == 'host') else
                  'messages_under_default_configuration')
    h = scen.Hostile(e_client, keep_log=True, cfg=cfg)
    t = h.t
    extra = [] if clv is None else [(b'content-length', str(clv).encode())]
    frames = []      # (bytes, carries_end_stream)
    if e_client:
        req = [(b':method', method), (b':scheme', b'https'), (b':authority', b'example.com'), (b':path', b'/')]
        if naming == 'host':
            req = [x for x in req if x[0] != b':authority'] + [(b'host', b'example.com')]
        other = [(b':method', b'GET' if method == b'HEAD' else b'HEAD')] + req[1:]
        if head_trailers:
            sid, r = h.e_request(headers=req)
            assert r.ok
            if noise == 'headers-with-another-method-on-open-stream' and not refused(t, rep, 'send_headers', sid, other):
                return
            if noise == 'trailers-without-end-stream' and not refused(t, rep, 'send_headers', sid, [(b'x-req-trailer', b'1')]):
                return
            r = t.call('send_headers', sid, [(b'x-req-trailer', b'1')], end_stream=True)
            assert r.ok, r.exc
        elif noise == 'headers-with-another-method-on-open-stream':
            sid, r = h.e_request(headers=req)
            assert r.ok
            if not refused(t, rep, 'send_headers', sid, other, end_stream=cl == 'n'):
                return
            assert t.call('end_stream', sid).ok
        else:
            sid, r = h.e_request(headers=req, end_stream=True)
            assert r.ok
        if noise == 'headers-with-another-method' and not refused(t, rep, 'send_headers', sid, other, end_stream=True):
            return
        if noise == 'promise-with-another-method':
            # the server promises a request of another method on this stream before it answers: that says nothing about the
            # request the client made
            pid = h.peer_next
            h.peer_next += 2
            r0 = h.send(wire.build_push_promise(sid, pid, hb([(b':method', b'GET' if method == b'HEAD' else b'HEAD'), (b':scheme', b'https'),
                                                                (b':authority', b'example.com'), (b':path', b'/pushed')])))
            if not r0.ok:
                return
            rep.count('promise_with_another_method_before_the_response')
        final = status
        if status == '100+200':
            frames.append((wire.build_headers(sid, hb([(b':status', b'100')])), False))
            final = '200'
        elif status == '103cl+200':
            # an informational response that carries a content-length of its own: it says nothing about the final response
            frames.append((wire.build_headers(sid, hb([(b':status', b'103'), (b'content-length', b'7')])), False))
            final = '200'
            rep.count('informational_with_content_length')
        hdr = [(b':status', final.encode())] + extra
    else:
        sid = h.peer_next
        h.peer_next += 2
        hdr = [(b':method', method), (b':scheme', b'https'), (b':authority', b'example.com'), (b':path', b'/')] + extra
        if naming == 'host':
            hdr = [x for x in hdr if x[0] != b':authority'] + [(b'host', b'example.com')]
    frames.append((wire.build_headers(sid, hb(hdr), end_stream=(es == 'headers')), es == 'headers'))
    for i, k in enumerate(parts):
        last = i == len(parts) - 1
        frames.append((wire.build_data(sid, b'b' * k, end_stream=(last and es == 'last-data'), pad=pad), last and es == 'last-data'))
    if es == 'extra-empty-data':
        frames.append((wire.build_data(sid, b'', end_stream=True, pad=pad), True))
    elif es == 'trailers':
        frames.append((wire.build_headers(sid, hb([(b'x-trailer', b't')]), end_stream=True), True))
    total = sum(parts)
    no_content = e_client and (method == b'HEAD' or (status in ('204', '304')))
    if no_content:
        malformed = total > 0
        rep.count('no_content_responses')
    else:
        malformed = clv is not None and clv != total
    rep.count('malformed_expected' if malformed else 'wellformed_expected')

    rejected = False
    ended = False
    exc = None
    for i, (data, carries_es) in enumerate(frames):
        if i == 1 and not e_client and not frames[0][1]:
            if noise == 'invalid-response' and not refused(t, rep, 'send_headers', sid, [(b':status', b'200'), (b'te', b'gzip'),
                                                                                         (b'content-length', b'3')]):
                return
            if noise == 'response-without-status' and not refused(t, rep, 'send_headers', sid, [(b'content-length', b'3')]):
                return
        res = h.send(data)
        if res.exc is not None:
            rejected = True
            exc = res.exc
            break
        if any(f.type == wire.RST_STREAM and f.stream_id == sid for f in res.frames):
            rejected = True
            break
        for e in res.events:
            if type(e).__name__ == 'StreamEnded' and e.stream_id == sid:
                ended = True
    rep.count('messages_judged')
    rep.nontrivial((layer,) + tuple(cell))
    w = {'cell': [str(x) for x in cell], 'content_length': clv, 'data_total': total, 'log_tail': t.tail_log(6)}
    if len(rep.samples) < 3 and malformed:
        rep.sample({'cell': [str(x) for x in cell], 'malformed_by_oracle': malformed, 'rejected': rejected})
    cls = classify(cell, clv, total, no_content)
    if malformed and not rejected:
        rep.violation('C16:malformed-message-delivered:%s' % cls,
                      'message with content-length %s and %d DATA payload bytes (%s, END_STREAM on %s) was fully delivered' %
                      (clv, total, 'no-content response' if no_content else direction, es), w)
    elif not malformed and rejected:
        if exc is not None and not isinstance(exc, h2.exceptions.ProtocolError):
            return
        rep.violation('C16:wellformed-message-rejected:%s' % cls,
                      'well-formed message (content-length %s, %d DATA payload bytes, %s) was rejected: %s' %
                      (clv, total, 'no-content response' if no_content else direction, core.exc_key(exc) if exc else 'RST_STREAM'), w)
    elif not malformed and not ended:
        rep.violation('C16:wellformed-message-not-ended:%s' % cls, 'well-formed message produced no StreamEnded', w)


def classify(cell, clv, total, no_content):
    """Mechanism class of a disagreement (used in the key): which rule of 8.1.2.6 is involved."""
    direction, method, status, cl, n, sp, pad, es, head_trailers = cell[:9]
    if no_content:
        kind = 'head-with-request-trailers' if head_trailers else ('head' if method == b'HEAD' else 'status-' + status)
        return 'no-content-response:%s' % kind
    return '%s:end-stream-on-%s%s' % (direction, es, ':padded' if pad is not None else '')
