"""C13 - header compression state stays synchronised across all calls.

A monitor-owned HPACK decoder (limits following the SETTINGS the scripted peer
announced) is fed every header block E emits, in order.  Every block must decode
to exactly the normal form of the successful call that produced it (unique
x-tag per call).  A raising header call must emit nothing, leave the encoder
state (dynamic table, size, pending size updates; read-only probe) unchanged and
- the boundary-level consequence - later blocks must still decode correctly.
"""
import h2.exceptions

from .. import core, hdrmodel, scen, wire
from ..scen import REQ, RESP, hb

LEVEL = 'exploration'
RULE = ('each case = 15-60 header-carrying calls (send_headers, push_stream) on one endpoint, about a third of them raising '
        '(validation failures after a prefix of fresh indexable fields, trailers without END_STREAM, informational with '
        'END_STREAM, server priority, bad priority values, push with invalid headers / closed or even parent / bad promised '
        'id, closed streams; a fifth of the cases with outbound validation off, where only state errors and malformed field objects raise), '
        're-using 30-200 custom fields (bytes and str, some with surrounding blanks or upper-case names when normalisation is on), interleaved with peer SETTINGS frames changing HEADER_TABLE_SIZE '
        '{0,1,64,4096,65536} alone or together with other settings, once or repeated; non-trivial = at least one raising call '
        'followed by successfully decoded blocks; distinct = hash of the call list')
MINIMA = {'blocks_decoded_and_matched': 15000, 'raising_calls_judged': 6000, 'encoder_snapshots_compared': 6000,
          'table_size_changes_delivered': 1500, 'blocks_after_raising_call': 6000,
          'blocks_spanning_continuation_frames': 300, 'cases_with_outbound_validation_off': 300, 'trailers_with_an_odd_element': 1000, 'requests_with_host_and_authority': 300, 'requests_with_unusual_authority': 200}


def n_cases(tier):
    return 3000 if tier == 'quick' else 200000


def leading_size_updates(block):
    """Values of the dynamic table size updates at the start of a header block (RFC 7541 6.3)."""
    out = []
    pos = 0
    while pos < len(block) and (block[pos] & 0xe0) == 0x20:
        v = block[pos] & 0x1f
        pos += 1
        if v == 0x1f:
            shift = 0
            while pos < len(block):
                b = block[pos]
                pos += 1
                v += (b & 0x7f) << shift
                shift += 7
                if not b & 0x80:
                    break
        out.append(v)
    return out


def enc_snapshot(c):
    e = getattr(c, 'encoder', None)
    ht = getattr(e, 'header_table', None)
    if e is None or ht is None:
        return None
    try:
        return (tuple(ht.dynamic_entries), ht.maxsize, tuple(getattr(e, 'table_size_changes', ())), bool(getattr(ht, 'resized', False)))
    except Exception:      # noqa
        return None


def run_case(idx, rng, tier, rep):
    e_client = rng.random() < 0.5
    cfg = dict(normalize_outbound_headers=rng.random() < 0.8, validate_outbound_headers=rng.random() < 0.8)
    h = scen.Hostile(e_client, cfg=cfg, keep_log=True)
    t = h.t
    t.scramble = rng.random() < 0.5      # the application reuses its header lists as soon as a call has returned
    h.mdec.max_allowed_table_size = 4096
    if not cfg['validate_outbound_headers']:
        rep.count('cases_with_outbound_validation_off')
    pool = [(b'x-f%d' % i, b'v%d' % rng.randrange(4)) for i in range(rng.choice([30, 80, 200]))]
    if cfg['normalize_outbound_headers']:
        # text and byte strings, some with blanks around them: the normal form is the same (stripped bytes)
        for i in range(len(pool)):
            r0 = rng.random()
            n, v = pool[i]
            if r0 < 0.12:
                pool[i] = (n.decode(), rng.choice([' %s', '%s ', '\t%s \t', '%s']) % v.decode())
            elif r0 < 0.2:
                pool[i] = (n, rng.choice([b' %s', b'%s\t', b'  %s  ']) % v)
            elif r0 < 0.26:
                pool[i] = (rng.choice([' %s', '%s ']) % n.decode().upper(), v)
    calls = []
    tag = [0]
    st = {'alive': True, 'raised_before': False}
    resp_streams = []     # server: peer streams awaiting a response; client: n/a
    trailer_streams = []  # streams on which E has sent its first header block without END_STREAM
    closed = []
    announced = {4096}     # every HEADER_TABLE_SIZE value the peer has announced so far

    def fail(key, what):
        rep.violation(key, what, {'role': 'client' if e_client else 'server', 'cfg': cfg, 'calls': calls[-10:], 'log_tail': t.tail_log(3)})
        st['alive'] = False

    def fields(n):
        return [rng.choice(pool) for _ in range(n)]

    def maybe_big():
        """Now and then a field that makes the block spill into CONTINUATION frames (the first frame may carry priority
        fields or a promised id in front of its fragment)."""
        if rng.random() < 0.05:
            rep.count('blocks_spanning_continuation_frames')
            n = rng.choice([16350, 16380, 16384, 16400, 20000, 33000])
            return [(b'x-big', bytes(rng.choice(b'0123456789abcdefghijklmnopqrstuvwxyz') for _ in range(n)))]
        return []

    orig_call = t.call

    def recording_call(op, *a, **k):
        if op == 'send_headers':
            st['last_hs'] = a[1]
        elif op == 'push_stream':
            st['last_hs'] = a[2]
        return orig_call(op, *a, **k)
    t.call = recording_call

    def accepted(res, who):
        # whether the library should have refused is C08/C14's business: here an accepted call is simply a successful call
        rep.count('unexpectedly_accepted_calls')
        judge_ok(res, st['last_hs'], who)

    def judge_ok(res, hs, who):
        raw = b''.join(f.data or b'' for f in res.frames if f.type in (wire.HEADERS, wire.PUSH_PROMISE, wire.CONTINUATION))
        ups = leading_size_updates(raw)
        limit = h.mdec.max_allowed_table_size
        stale = False
        if ups and max(ups) > limit and ups[-1] <= limit and all(u in announced for u in ups):
            # the block replays every table size the peer ever announced, in order, instead of (minimum, final):
            # an intermediate value above the limit now in force.  Mechanism recorded once; decode with the
            # limit relaxed for this block so that the rest of the history can still be judged.
            stale = True
            h.mdec.max_allowed_table_size = max(ups)
        blocks = h.decode_blocks(res.frames)
        if stale:
            h.mdec.max_allowed_table_size = limit
            rep.violation('C13:stale-intermediate-table-size-update-above-current-limit',
                          'header block starts with dynamic table size updates %s while the limit announced last is %d' % (ups, limit),
                          {'role': 'client' if e_client else 'server', 'calls': calls[-6:]})
        if len(blocks) != 1:
            fail('C13:no-header-block-emitted', '%s emitted %s' % (who, [f.name for f in res.frames]))
            return
        if isinstance(blocks[0][1], Exception):
            fail('C13:peer-cannot-decode-block%s' % (':after-raising-call' if st['raised_before'] else ''),
                 'block of successful %s does not decode at the peer: %r' % (who, blocks[0][1]))
            return
        want = [(n, v) for n, v, _ in (hdrmodel.normal_form(hs) if cfg['normalize_outbound_headers'] else hdrmodel.raw_form(hs))]
        if blocks[0][1] != want:
            k = next((i for i, (a, b) in enumerate(zip(blocks[0][1], want)) if a != b), min(len(blocks[0][1]), len(want)))
            fail('C13:decoded-block-differs-from-call%s' % (':after-raising-call' if st['raised_before'] else ''),
                 'field %d decodes to %r, the call sent %r' % (k, blocks[0][1][k:k + 1], want[k:k + 1]))
            return
        rep.count('blocks_decoded_and_matched')
        if st['raised_before']:
            rep.count('blocks_after_raising_call')

    def judge_raise(res, before, who):
        rep.count('raising_calls_judged')
        st['raised_before'] = True
        if res.frames:
            fail('C13:raising-call-emitted:%s' % who, '%s raised %s but emitted %s' % (who, type(res.exc).__name__, [f.name for f in res.frames]))
            return
        after = enc_snapshot(t.c)
        if before is not None and after is not None:
            rep.count('encoder_snapshots_compared')
            if after != before:
                what = 'dynamic-table' if after[0] != before[0] else 'table-size-signalling'
                fail('C13:raising-call-changed-compression-context:%s:%s' % (who, what),
                     '%s raised %s (%s) but the encoder state changed: %d -> %d dynamic entries' %
                     (who, type(res.exc).__name__, str(res.exc)[:60], len(before[0]), len(after[0])))

    def open_peer_stream():
        sid, r = h.peer_request(headers=scen.REQ_POST)
        if not r.ok:
            st['alive'] = False
            return None
        return sid

    if not e_client:
        for _ in range(3):
            s = open_peer_stream()
            if s:
                resp_streams.append(s)
    for step in range(rng.randrange(15, 61)):
        if not st['alive']:
            break
        tag[0] += 1
        tagf = (b'x-tag', b'%d' % tag[0])
        r = rng.random()
        if r < 0.12:
            # peer SETTINGS
            v = rng.choice([0, 1, 64, 4096, 65536])
            pairs = [(wire.S_HEADER_TABLE_SIZE, v)]
            if rng.random() < 0.5:
                extra = rng.choice([(4, rng.choice([65535, 70000])), (5, 16384), (3, 100), (6, 65536)])
                pairs.insert(rng.choice([0, 1]), extra)
            reps = rng.choice([1, 1, 2])
            for _ in range(reps):
                res = h.send(wire.build_settings(pairs))
                if not res.ok:
                    st['alive'] = False
                    break
            # the peer's decoder enforces the limit it announced
            h.mdec.max_allowed_table_size = v
            announced.add(v)
            rep.count('table_size_changes_delivered')
            calls.append(('peer-settings', pairs, reps))
            continue
        kind = rng.choice(['ok', 'ok', 'bad-headers', 'bad-state', 'bad-priority', 'push-ok', 'push-bad', 'trailers-ok', 'odd-trailers'])
        before = enc_snapshot(t.c)
        if kind == 'odd-trailers':
            # trailers in which one element is not a (name, value) pair of strings: whether the call takes it (a third element is
            # how hpack itself marks a sensitive field) or raises, a raise leaves no trace and the stream can still be ended
            if not trailer_streams:
                continue
            sid = trailer_streams.pop(0)
            odd = rng.choice([(b'x-odd', b'v', False), (b'x-odd', b'v', True), (b'x-odd',), (b'x-odd', None), (b'x-odd', 7)])
            hs = fields(rng.randrange(1, 4)) + [tagf]
            pos = rng.randrange(0, len(hs) + 1)
            res = t.call('send_headers', sid, hs[:pos] + [odd] + hs[pos:], end_stream=True)
            calls.append(('odd-trailers', sid, repr(odd)))
            rep.count('trailers_with_an_odd_element')
            if res.exc is None:
                if len(odd) >= 2 and isinstance(odd[1], bytes):
                    judge_ok(res, hs[:pos] + [odd[:2]] + hs[pos:], 'send_headers')
                else:
                    h.decode_blocks(res.frames)      # (taken as it is: the monitor's decoder follows, the content is not judged)
                closed.append(sid)
            else:
                judge_raise(res, before, 'send_headers')
                trailer_streams.append(sid)
            continue
        if e_client:
            if kind in ('push-ok', 'push-bad'):
                kind = 'ok'
            if kind == 'ok':
                sid = h.e_next
                h.e_next += 2
                hs = REQ[:] + fields(rng.randrange(0, 6)) + maybe_big() + [tagf]
                r1 = rng.random()
                if r1 < 0.15:
                    # a Host field that agrees with :authority, somewhere among the other fields (not only at the end)
                    hs.insert(rng.randrange(len(REQ), len(hs)), (rng.choice([b'host', b'Host'] if cfg['normalize_outbound_headers'] else [b'host']),
                                                                 b'example.com'))
                    rep.count('requests_with_host_and_authority')
                elif r1 < 0.25:
                    # authorities that are unusual as names but are just octets to HTTP/2 (text or bytes; long or empty labels)
                    odd = rng.choice(['a' * 70 + '.example', 'example..com', '.example', 'xn--' + 'b' * 64, 'ex ample'])
                    if odd == 'ex ample' and cfg['validate_outbound_headers']:
                        odd = 'example..com'
                    hs = [(n, odd if rng.random() < 0.6 else odd.encode()) if n == b':authority' else (n, v) for n, v in hs]
                    rep.count('requests_with_unusual_authority')
                es = rng.random() < 0.4
                pkw = {}
                if rng.random() < 0.3:
                    pkw = rng.choice([{'priority_weight': 16}, {'priority_depends_on': 0, 'priority_exclusive': False},
                                      {'priority_weight': 256, 'priority_depends_on': max(0, sid - 2), 'priority_exclusive': True}])
                res = t.call('send_headers', sid, hs, end_stream=es, **pkw)
                calls.append(('request', sid, len(hs), es, sorted(pkw)))
                if res.exc is not None:
                    if isinstance(res.exc, h2.exceptions.TooManyStreamsError):
                        st['alive'] = False
                        continue
                    fail('C13:valid-call-refused', 'valid request refused: %r' % res.exc)
                    continue
                judge_ok(res, hs, 'send_headers')
                (closed if es else trailer_streams).append(sid)
            elif kind == 'trailers-ok':
                if not trailer_streams:
                    continue
                sid = trailer_streams.pop(0)
                hs = fields(rng.randrange(0, 4)) + [tagf]
                res = t.call('send_headers', sid, hs, end_stream=True)
                calls.append(('trailers', sid))
                if res.exc is not None:
                    fail('C13:valid-call-refused', 'valid trailers refused: %r' % res.exc)
                    continue
                judge_ok(res, hs, 'send_headers')
                closed.append(sid)
            elif kind == 'bad-headers':
                sid = h.e_next
                h.e_next += 2
                hs, why = bad_list(rng, REQ, fields(rng.randrange(1, 6)), tagf, cfg)
                res = t.call('send_headers', sid, hs, end_stream=rng.random() < 0.4)
                calls.append(('bad-request', sid, why))
                if res.exc is None:
                    judge_ok(res, hs, 'send_headers')
                    continue
                judge_raise(res, before, 'send_headers')
            elif kind == 'bad-state':
                which = rng.choice(['trailers-no-es', 'closed-stream', 'second-trailers'])
                if which == 'trailers-no-es' and trailer_streams:
                    sid = trailer_streams.pop(0)
                    res = t.call('send_headers', sid, fields(3) + [tagf], end_stream=False)
                    closed.append(sid)
                elif closed:
                    sid = rng.choice(closed)
                    res = t.call('send_headers', sid, fields(3) + [tagf], end_stream=True)
                else:
                    continue
                calls.append(('bad-state', which, sid))
                if res.exc is None:
                    accepted(res, 'send_headers')
                    continue
                judge_raise(res, before, 'send_headers')
            else:   # bad-priority
                sid = h.e_next
                h.e_next += 2
                kw = rng.choice([{'priority_weight': 0}, {'priority_weight': 257}, {'priority_depends_on': sid},
                                 {'priority_weight': -5, 'priority_exclusive': True}, {'priority_depends_on': 2 ** 31}])
                hs = REQ[:] + fields(3) + [tagf]
                res = t.call('send_headers', sid, hs, **kw)
                calls.append(('bad-priority', sid, kw))
                if res.exc is None:
                    accepted(res, 'send_headers')
                    continue
                judge_raise(res, before, 'send_headers')
        else:
            if not resp_streams and kind in ('ok', 'bad-headers', 'bad-priority', 'push-ok', 'push-bad', 'bad-state'):
                s = open_peer_stream()
                if not s:
                    continue
                resp_streams.append(s)
            if kind == 'ok':
                sid = resp_streams.pop(0)
                info = rng.random() < 0.2 and sid % 2 == 1      # (1xx on a reserved pushed stream is a state-machine question: C06)
                hs = ([(b':status', b'103')] if info else RESP[:]) + fields(rng.randrange(0, 6)) + [tagf]
                es = (not info) and rng.random() < 0.4
                res = t.call('send_headers', sid, hs, end_stream=es)
                calls.append(('response', sid, info, es))
                if res.exc is not None:
                    fail('C13:valid-call-refused', 'valid response refused: %r' % res.exc)
                    continue
                judge_ok(res, hs, 'send_headers')
                if info:
                    resp_streams.insert(0, sid)
                else:
                    (closed if es else trailer_streams).append(sid)
            elif kind == 'trailers-ok':
                if not trailer_streams:
                    continue
                sid = trailer_streams.pop(0)
                hs = fields(rng.randrange(0, 4)) + [tagf]
                res = t.call('send_headers', sid, hs, end_stream=True)
                calls.append(('trailers', sid))
                if res.exc is not None:
                    fail('C13:valid-call-refused', 'valid trailers refused: %r' % res.exc)
                    continue
                judge_ok(res, hs, 'send_headers')
                closed.append(sid)
            elif kind == 'bad-headers':
                sid = resp_streams.pop(0)
                hs, why = bad_list(rng, RESP, fields(rng.randrange(1, 6)), tagf, cfg, response=True)
                res = t.call('send_headers', sid, hs, end_stream=rng.random() < 0.4)
                calls.append(('bad-response', sid, why))
                if res.exc is None:
                    judge_ok(res, hs, 'send_headers')
                    continue
                judge_raise(res, before, 'send_headers')
                closed.append(sid)
            elif kind == 'bad-state':
                which = rng.choice(['trailers-no-es', 'closed-stream', 'informational-es', 'informational-after-final'])
                if which == 'trailers-no-es' and trailer_streams:
                    sid = trailer_streams.pop(0)
                    res = t.call('send_headers', sid, fields(3) + [tagf], end_stream=False)
                    closed.append(sid)
                elif which == 'informational-es':
                    odd = [x for x in resp_streams if x % 2 == 1]
                    if not odd:
                        continue
                    sid = odd[0]
                    resp_streams.remove(sid)
                    res = t.call('send_headers', sid, [(b':status', b'100')] + fields(3) + [tagf], end_stream=True)
                    closed.append(sid)
                elif which == 'informational-after-final' and trailer_streams:
                    sid = trailer_streams.pop(0)
                    res = t.call('send_headers', sid, [(b':status', b'100')] + fields(3) + [tagf])
                    closed.append(sid)
                elif closed:
                    sid = rng.choice(closed)
                    res = t.call('send_headers', sid, fields(3) + [tagf], end_stream=True)
                else:
                    continue
                calls.append(('bad-state', which, sid))
                if res.exc is None:
                    accepted(res, 'send_headers')
                    continue
                judge_raise(res, before, 'send_headers')
            elif kind == 'bad-priority':
                sid = resp_streams.pop(0)
                kw = rng.choice([{'priority_weight': 16}, {'priority_depends_on': 0}, {'priority_exclusive': False},
                                 {'priority_weight': 300}])
                res = t.call('send_headers', sid, RESP[:] + fields(3) + [tagf], **kw)
                calls.append(('server-priority', sid, kw))
                if res.exc is None:
                    accepted(res, 'send_headers')
                    continue
                judge_raise(res, before, 'send_headers')
                resp_streams.insert(0, sid)
            elif kind == 'push-ok':
                odd = [x for x in resp_streams if x % 2 == 1]
                if not odd:
                    continue
                par = odd[0]
                try:
                    pid = t.c.get_next_available_stream_id()     # (a refused push may already have consumed an id)
                except Exception:      # noqa
                    continue
                h.e_next = pid + 2
                hs = REQ[:] + fields(rng.randrange(0, 6)) + maybe_big() + [tagf]
                res = t.call('push_stream', par, pid, hs)
                calls.append(('push', par, pid))
                if res.exc is not None:
                    fail('C13:valid-call-refused', 'valid push refused: %r' % res.exc)
                    continue
                judge_ok(res, hs, 'push_stream')
                resp_streams.append(pid)
            else:   # push-bad
                odd = [x for x in resp_streams if x % 2 == 1]
                if not odd:
                    continue
                par = odd[0]
                which = rng.choice(['bad-headers', 'odd-promised', 'low-promised', 'closed-parent', 'even-parent'])
                try:
                    h.e_next = t.c.get_next_available_stream_id()
                except Exception:      # noqa
                    continue
                pid = h.e_next
                hs = REQ[:] + fields(rng.randrange(1, 5)) + [tagf]
                why = which
                if which == 'bad-headers':
                    hs, why = bad_list(rng, REQ, fields(rng.randrange(1, 5)), tagf, cfg)
                elif which == 'odd-promised':
                    pid = h.e_next + 1
                elif which == 'low-promised':
                    if h.e_next <= 2:
                        continue
                    pid = h.e_next - 2
                elif which == 'closed-parent':
                    if not closed:
                        continue
                    par = rng.choice(closed)
                elif which == 'even-parent':
                    evens = [s for s in resp_streams if s % 2 == 0]
                    if not evens:
                        continue
                    par = evens[0]
                res = t.call('push_stream', par, pid, hs)
                calls.append(('bad-push', which, par, pid, why))
                if res.exc is None:
                    accepted(res, 'push_stream')
                    continue
                judge_raise(res, before, 'push_stream')
                if which == 'bad-headers':
                    h.e_next += 2        # the promised id was consumed by the refused call
                hi = getattr(t.c, 'highest_outbound_stream_id', None)
                if hi is not None and hi >= h.e_next:
                    h.e_next = hi + 2
    if st['raised_before'] and rep.counters.get('blocks_after_raising_call'):
        rep.nontrivial((e_client, tuple(str(c) for c in calls)))
    if idx % 293 == 0:
        rep.sample({'role': 'client' if e_client else 'server', 'cfg': cfg, 'calls': [str(c) for c in calls[:25]]})


def bad_list(rng, base, fresh, tagf, cfg, response=False):
    """A header list that is valid for a prefix of fresh indexable fields and then invalid."""
    why = rng.choice(['pseudo-after-regular', 'duplicate-pseudo', 'unknown-pseudo', 'te-not-trailers', 'missing-pseudo',
                      'authority-host-mismatch', 'empty-path', 'connection-specific', 'value-not-a-string'])
    hs = list(base)
    if why == 'value-not-a-string' and not cfg['normalize_outbound_headers']:
        why = 'unknown-pseudo'      # without normalisation nothing looks at the value before the encoder does: not generated
    if why == 'value-not-a-string':
        # a caller's slip rather than a protocol violation: the call fails with whatever exception, and must leave no trace either
        hs = hs + fresh + [tagf, (b'x-broken', None)]
    elif why == 'pseudo-after-regular':
        hs = hs + fresh + [tagf] + [hs[0]]
        hs.pop(0)
    elif why == 'duplicate-pseudo':
        hs = hs + [hs[0]] + fresh + [tagf]
        # place the duplicate after some regular fields? no: pseudo must stay first; the duplicate itself is the violation
        hs = list(base) + fresh[:0] + [base[0]] + fresh + [tagf]
    elif why == 'unknown-pseudo':
        hs = hs + [(b':x-unknown', b'1')] + fresh + [tagf]
    elif why == 'te-not-trailers':
        hs = hs + fresh + [tagf, (b'te', b'gzip')]
    elif why == 'missing-pseudo':
        hs = hs[1:] + fresh + [tagf]
        if not response and len(base) > 1:
            hs = [x for x in base if x[0] != b':path'] + fresh + [tagf]
    elif why == 'authority-host-mismatch':
        if response:
            hs = hs + fresh + [tagf, (b'te', b'deflate')]
            why = 'te-not-trailers'
        else:
            hs = hs + fresh + [tagf, (b'host', b'another.example')]
    elif why == 'empty-path':
        if response:
            hs = fresh + [tagf] + hs
            why = 'pseudo-after-regular'
        else:
            hs = [(n, b'') if n == b':path' else (n, v) for n, v in hs] + fresh + [tagf]
    else:
        if cfg['normalize_outbound_headers']:
            hs = hs + fresh + [tagf, (b'te', b'chunked')]
            why = 'te-not-trailers'
        else:
            hs = hs + fresh + [tagf, (b'connection', b'close')]
    return hs, why
