"""C27 - peer-controlled retained state stays bounded.

Long hostile frame sequences; after frames that open no stream the number of
tracked streams must not grow, the closed-stream memory stays within its cap,
header blocks longer than the CONTINUATION limit and decoded header lists
larger than the acknowledged MAX_HEADER_LIST_SIZE are refused (the latter with
ENHANCE_YOUR_CALM), and a census of every peer-fed container taken at N and 2N
frames shows a plateau.
"""
import h2.exceptions

from .. import core, scen, wire, hpackmini as hm
from ..scen import REQ, RESP, hb

LEVEL = 'exploration'
RULE = ('each case = one pattern (open+END_STREAM churn, open+RST churn, PRIORITY spray, WINDOW_UPDATE/RST_STREAM on idle and '
        'closed ids, unknown frame types, unknown SETTINGS ids, CONTINUATION chains of 61..66 frames with/without END_HEADERS, '
        'header lists at MHLS-1/MHLS/MHLS+1 for several acknowledged MHLS values set alone or together with other settings, or after '
        '2-4 changes (values returning to earlier ones, some still unacknowledged), '
        'refused pushes, streams opened and left open against an acknowledged MAX_CONCURRENT_STREAMS of 0/1/3/20) of 2N frames on a server or client with a census at N and 2N; non-trivial = census compared or a '
        'limit boundary judged; distinct = (pattern, role, parameters)')
MINIMA = {'open_flood_cases_judged': 60, 'open_flood_cases_with_limit_zero': 15, 'non_opening_frames_checked': 90000, 'continuation_chains_judged': 300, 'header_list_limits_judged': 600, 'header_list_limits_judged_after_several_changes': 200,
          'header_list_limits_judged_with_changes_in_flight': 50,
          'census_comparisons': 300, 'closed_stream_cap_reached': 100,
          'cases_with_unlimited_local_stream_limit': 60, 'cases_without_forced_cleanup': 200}


def n_cases(tier):
    return 1200 if tier == 'quick' else 2400


PATTERNS = ['churn-es', 'churn-rst', 'priority-spray', 'wu-rst-closed', 'unknown-frames', 'unknown-settings', 'continuation',
            'continuation', 'mhls', 'mhls', 'refused-push', 'mixed', 'open-flood']


def census(c):
    """Sizes of every container the peer can feed (read-only; missing attribute => None)."""
    def ln(o):
        try:
            return len(o)
        except Exception:      # noqa
            return None
    ib = getattr(c, 'incoming_buffer', None)
    enc = getattr(c, 'encoder', None)
    dec = getattr(c, 'decoder', None)
    rs = getattr(c, 'remote_settings', None)
    ls = getattr(c, 'local_settings', None)
    out = {
        'streams': ln(getattr(c, 'streams', None)),
        'closed_streams': ln(getattr(c, '_closed_streams', None)),
        'incoming_buffer': ln(getattr(ib, 'data', None)),
        'headers_buffer': ln(getattr(ib, '_headers_buffer', None)),
        'data_to_send': ln(getattr(c, '_data_to_send', None)),
        'enc_table': ln(getattr(getattr(enc, 'header_table', None), 'dynamic_entries', None)),
        'dec_table': ln(getattr(getattr(dec, 'header_table', None), 'dynamic_entries', None)),
        'remote_settings_keys': ln(getattr(rs, '_settings', None)),
        'remote_settings_depth': None, 'local_settings_depth': None,
    }
    try:
        out['remote_settings_depth'] = sum(len(v) for v in rs._settings.values())
        out['local_settings_depth'] = sum(len(v) for v in ls._settings.values())
    except Exception:          # noqa
        pass
    return out


def tracked(c):
    s = getattr(c, 'streams', None)
    cs = getattr(c, '_closed_streams', None)
    if s is None or cs is None:
        return None
    return len(s) + len(cs)


def run_case(idx, rng, tier, rep):
    pat = PATTERNS[idx % len(PATTERNS)]
    e_client = rng.random() < 0.4
    nframes = 1500 if tier == 'quick' else rng.choice([3000, 20000, 60000])
    if idx % 600 == 1:
        # reach the closed-stream memory cap for real: more than MAX_CLOSED_STREAMS streams opened and closed
        pat = rng.choice(['churn-es', 'churn-rst'])
        nframes = 2 ** 16 + 3000
    if pat == 'open-flood':
        return run_open_flood(rng, rep, e_client)
    if pat == 'continuation':
        return run_continuation(rng, rep, e_client)
    if pat == 'mhls':
        return run_mhls(rng, rep, e_client)
    # some endpoints allow (and have had acknowledged) a practically unlimited number of concurrent streams, and some
    # applications never read the open-stream counters: retained state must stay bounded for them as well
    big_limit = pat in ('churn-es', 'churn-rst', 'mixed', 'wu-rst-closed') and rng.random() < 0.4
    force_cleanup = rng.random() < 0.5
    e_settings = {wire.S_MAX_CONCURRENT_STREAMS: 2 ** 31 - 1} if big_limit else None
    h = scen.Hostile(e_client, keep_log=False, e_settings=e_settings)
    t = h.t
    cap = getattr(type(h.c), 'MAX_CLOSED_STREAMS', None)
    snaps = []
    if big_limit:
        rep.count('cases_with_unlimited_local_stream_limit')
    if not force_cleanup:
        rep.count('cases_without_forced_cleanup')
    frames_sent = 0
    w = {'pattern': pat, 'role': 'client' if e_client else 'server'}

    def reconnect():
        nonlocal h, t
        h = scen.Hostile(e_client, keep_log=False, e_settings=e_settings)
        t = h.t

    def non_opening(data, what):
        """deliver a frame that must not allocate stream state"""
        before = tracked(h.c)
        res = h.send(data)
        after = tracked(h.c)
        if before is not None and after is not None:
            rep.count('non_opening_frames_checked')
            if after > before:
                rep.violation('C27:stream-state-allocated-by-%s' % what,
                              '%s grew the number of tracked streams from %d to %d' % (what, before, after), w)
                return None
        return res

    hi_closed = []
    for i in range(nframes):
        frames_sent += 1
        p = pat if pat != 'mixed' else rng.choice(PATTERNS[:6] + ['refused-push'])
        if p in ('churn-es', 'churn-rst'):
            if e_client:
                sid, r = h.e_request(end_stream=True)
                if not r.ok:
                    reconnect()
                    continue
                if p == 'churn-es':
                    r = h.peer_headers(sid, RESP, end_stream=True)
                else:
                    r = h.send(wire.build_rst(sid, 8))
            else:
                sid = h.peer_next
                h.peer_next += 2
                if p == 'churn-es':
                    r = h.send(wire.build_headers(sid, hb(REQ), end_stream=True))
                    if r.ok:
                        r = t.call('send_headers', sid, RESP, end_stream=True)
                else:
                    r = h.send(wire.build_headers(sid, hb(REQ)))
                    if r.ok:
                        r = h.send(wire.build_rst(sid, 8))
            if not r.ok:
                reconnect()
                continue
            hi_closed.append(sid)
            if len(hi_closed) > 50:
                hi_closed.pop(0)
        elif p == 'priority-spray':
            sid = rng.choice([rng.randrange(1, 2 ** 31), rng.randrange(1, 1000), 2 ** 31 - 1])
            dep = rng.choice([0, rng.randrange(1, 2 ** 31)])
            if dep == sid:
                dep = 0
            r = non_opening(wire.build_priority(sid, dep, rng.random() < 0.5, rng.randrange(256)), 'PRIORITY')
            if r is None:
                return
            if not r.ok:
                reconnect()
        elif p == 'wu-rst-closed':
            if not hi_closed or rng.random() < 0.1:
                sid = h.open_stream(end_stream=False)
                r = t.call('reset_stream', sid) if rng.random() < 0.5 else h.send(wire.build_rst(sid, 0))
                hi_closed.append(sid)
                continue
            sid = rng.choice(hi_closed + [rng.randrange(1, 2 ** 31)] * 2)
            if rng.random() < 0.5:
                r = non_opening(wire.build_rst(sid, rng.randrange(14)), 'RST_STREAM-on-idle-or-closed')
            else:
                r = non_opening(wire.build_window_update(sid, rng.randrange(1, 1000)), 'WINDOW_UPDATE-on-idle-or-closed')
            if r is None:
                return
            if not r.ok:
                reconnect()
        elif p == 'unknown-frames':
            r = non_opening(wire.raw_frame(rng.randrange(11, 256), rng.randrange(256), rng.choice([0, rng.randrange(1, 2 ** 31)]),
                                           bytes(rng.randrange(256) for _ in range(rng.randrange(0, 64)))), 'unknown-frame-type')
            if r is None:
                return
            if not r.ok:
                reconnect()
        elif p == 'unknown-settings':
            r = non_opening(wire.build_settings([(rng.choice([0, 7, 9, 0x0a0a, 0x1a1a, rng.randrange(9, 2 ** 16)]), rng.randrange(2 ** 32))
                                                 for _ in range(rng.randrange(1, 5))]), 'SETTINGS')
            if r is None:
                return
            if not r.ok:
                reconnect()
            elif rng.random() < 0.2:
                non_opening(wire.build_ping(b'12345678'), 'PING')
        elif p == 'refused-push':
            if not e_client:
                non_opening(wire.build_ping(b'abcdefgh'), 'PING')
                continue
            sid, r = h.e_request()
            if not r.ok:
                reconnect()
                continue
            t.call('reset_stream', sid)
            pid = h.peer_next
            h.peer_next += 2
            r = h.send(wire.build_push_promise(sid, pid, hb(REQ)))
            if not r.ok:
                reconnect()
        cs = getattr(h.c, '_closed_streams', None)
        if cap is not None and cs is not None and len(cs) >= cap:
            rep.count('closed_stream_cap_reached')
        if cap is not None and cs is not None and len(cs) > cap:
            rep.violation('C27:closed-stream-memory-above-cap', 'closed-stream memory holds %d entries, cap %d' % (len(cs), cap), w)
            return
        if frames_sent in (nframes // 2, nframes):
            # quiescent: in half of the cases force the lazy cleanup the way an application reading the counters would
            if force_cleanup:
                h.cleanup()
            snaps.append(census(h.c))
    if len(snaps) == 2:
        rep.count('census_comparisons')
        a, b = snaps
        w['census'] = [a, b]
        for k in a:
            if a[k] is None or b[k] is None:
                continue
            grow = b[k] - a[k]
            # plateau: between N and 2N frames a peer-fed container may not keep growing linearly.
            # closed_streams legitimately grows up to its cap; settings keys up to the 2^16 identifier space.
            if k == 'closed_streams':
                continue
            if k in ('remote_settings_keys', 'remote_settings_depth') and pat in ('unknown-settings', 'mixed'):
                if b[k] > 2 ** 16 + 16:
                    rep.violation('C27:settings-table-above-identifier-space', '%s = %d' % (k, b[k]), w)
                # every received SETTINGS frame is acknowledged at once, so no identifier keeps more than its current value:
                # values retained grow with the identifiers seen, not with the frames received
                if k == 'remote_settings_depth' and b.get('remote_settings_keys') is not None:
                    rep.count('settings_values_per_identifier_checked')
                    if b[k] > b['remote_settings_keys'] + 8:
                        rep.violation('C27:settings-values-queued-for-ever', '%d values retained for %d setting identifiers after %d frames' %
                                      (b[k], b['remote_settings_keys'], nframes), w)
                        return
                continue
            if grow > 8 and grow > 0.05 * (nframes / 2):
                rep.violation('C27:container-keeps-growing:%s' % k, '%s grew from %d to %d between frame %d and %d (pattern %s)' %
                              (k, a[k], b[k], nframes // 2, nframes, pat), w)
                return
        rep.nontrivial((pat, e_client, nframes))
    if idx % 97 == 0:
        rep.sample({'pattern': pat, 'role': w['role'], 'frames': nframes, 'census': snaps})


def run_continuation(rng, rep, e_client):
    """Header blocks of HEADERS + n CONTINUATION frames around the limit."""
    import h2.frame_buffer as fb
    limit = getattr(fb, 'CONTINUATION_BACKLOG', None)
    if limit is None:
        return
    for n in [limit - 3, limit - 2, limit - 1, limit, limit + 1, limit + 2, rng.randrange(1, limit + 40)]:
        for final_end_headers in (True, False):
            for per_call in (True, False):
                h = scen.Hostile(e_client, keep_log=False)
                if e_client:
                    sid, r = h.e_request()
                    first = RESP
                else:
                    sid = h.peer_next
                    first = REQ
                block = hb(first + [(b'x-c', b'v' * 40)])
                k = max(1, len(block) // (n + 1))
                parts = [block[i * k:(i + 1) * k] for i in range(n)] + [block[n * k:]]
                if rng.random() < 0.5:
                    parts = [block] + [b''] * n          # empty continuation frames
                frames = [wire.build_headers(sid, parts[0], end_headers=False, end_stream=True)]
                for i, p in enumerate(parts[1:]):
                    frames.append(wire.build_continuation(sid, p, end_headers=(final_end_headers and i == n - 1)))
                # total frames in the block = n + 1 ; refused iff n + 1 > limit
                must_refuse = n + 1 > limit
                raised = None
                delivered = False
                chunks = frames if per_call else [b''.join(frames)]
                maxbuf = 0
                for ch in chunks:
                    res = h.send(ch)
                    hbuf = getattr(getattr(h.c, 'incoming_buffer', None), '_headers_buffer', None)
                    if hbuf is not None and res.exc is None:
                        maxbuf = max(maxbuf, len(hbuf))       # (state after a connection error is not retained state)
                    if res.exc is not None:
                        raised = res.exc
                        break
                    if any(type(e).__name__ in ('RequestReceived', 'ResponseReceived') for e in res.events):
                        delivered = True
                rep.count('continuation_chains_judged')
                rep.nontrivial(('cont', e_client, n, final_end_headers, per_call))
                w = {'role': 'client' if e_client else 'server', 'continuation_frames': n, 'limit': limit,
                     'final_end_headers': final_end_headers, 'one_frame_per_call': per_call}
                if must_refuse:
                    if raised is None:
                        rep.violation('C27:overlong-header-block-accepted:%s' % ('terminated' if final_end_headers else 'open'),
                                      'HEADERS + %d CONTINUATION frames (limit %d frames per block) not refused (delivered=%s)' %
                                      (n, limit, delivered), w)
                        return
                    if not isinstance(raised, h2.exceptions.ProtocolError):
                        rep.violation('C27:overlong-block-wrong-exception:' + core.exc_key(raised), repr(raised), w)
                        return
                else:
                    if raised is not None:
                        rep.violation('C27:header-block-within-limit-refused', 'HEADERS + %d CONTINUATION refused: %r' % (n, raised), w)
                        return
                    if final_end_headers and not delivered:
                        rep.violation('C27:header-block-within-limit-not-delivered', 'block of %d frames produced no event' % (n + 1), w)
                        return
                if maxbuf > limit:
                    rep.violation('C27:pending-header-buffer-above-cap', 'pending header buffer reached %d frames, cap %d' % (maxbuf, limit), w)
                    return


def run_open_flood(rng, rep, e_client):
    """The peer opens streams and leaves them open: never more of them are held than the MAX_CONCURRENT_STREAMS the endpoint
    has announced and had acknowledged - 0 included, which means none at all."""
    limit = rng.choice([0, 0, 1, 3, 20])
    h = scen.Hostile(e_client, keep_log=False, e_settings={wire.S_MAX_CONCURRENT_STREAMS: limit})
    w = {'pattern': 'open-flood', 'role': 'client' if e_client else 'server', 'acknowledged_local_limit': limit}
    par = None
    if e_client:
        # streams the peer can open at a client are pushed ones: promised first, then started by their response headers
        par, r = h.e_request()
        if not r.ok:
            return
    held_max, refused, opened = 0, 0, 0
    for i in range(rng.choice([5, 40, 300])):
        if e_client:
            pid = h.peer_next
            h.peer_next += 2
            r = h.send(wire.build_push_promise(par, pid, hb(REQ)))
            if r.ok:
                r = h.send(wire.build_headers(pid, hb(RESP)))
        else:
            sid = h.peer_next
            h.peer_next += 2
            r = h.send(wire.build_headers(sid, hb(REQ)))
        if r.ok and not any(f.type == wire.RST_STREAM for f in r.frames):
            opened += 1
        else:
            refused += 1
        try:
            live = h.c.open_inbound_streams
        except Exception:      # noqa
            live = None
        if live is not None:
            held_max = max(held_max, live)
            if live > limit:
                rep.violation('C27:more-peer-streams-held-than-the-acknowledged-limit:limit-%s' % ('0' if limit == 0 else 'n'),
                              '%d streams opened by the peer are held open, MAX_CONCURRENT_STREAMS %d was announced and acknowledged' %
                              (live, limit), w)
                return
        if not r.ok:
            break
    rep.count('open_flood_cases_judged')
    if limit == 0:
        rep.count('open_flood_cases_with_limit_zero')
    rep.nontrivial(('open-flood', e_client, limit, opened, refused))


def run_mhls_history(rng, rep, e_client):
    """Several MAX_HEADER_LIST_SIZE changes, some still unacknowledged, values that return to an earlier one: the limit
    in force is the value of the last change the peer has acknowledged."""
    for _ in range(8):
        h = scen.Hostile(e_client, keep_log=False)
        t = h.t
        pool = rng.sample([100, 400, 401, 4096, 65536, 20000], 2)
        vals = [rng.choice(pool) for _ in range(rng.choice([2, 3, 4]))]
        acked, sent, ok = 0, 0, True
        for v in vals:
            d = {6: v}
            if rng.random() < 0.2:
                d[rng.choice([3, 4])] = rng.choice([50, 70000])
            ok = ok and t.call('update_settings', d).ok
            sent += 1
            while acked < sent and rng.random() < 0.4:
                ok = ok and h.send(wire.build_settings(ack=True)).ok
                acked += 1
        while acked < sent and rng.random() < 0.8:
            ok = ok and h.send(wire.build_settings(ack=True)).ok
            acked += 1
        if not ok:
            continue
        limit = vals[acked - 1] if acked else 65536
        delta = rng.choice([-1, 0, 1, 1, 1000])
        base = RESP if e_client else REQ
        size = hm.header_list_size(base)
        target = limit + delta
        if target < size + 33 + 3:
            continue
        hs = base + [(b'x-f', b'f' * (target - size - 32 - len(b'x-f')))]
        if e_client:
            sid, _ = h.e_request()
        else:
            sid = h.peer_next
        block = hb(hs)
        data, pos = b'', 0
        while pos < len(block) or not data:
            data += (wire.build_headers(sid, block[:16000], end_headers=len(block) <= 16000, end_stream=True) if pos == 0 else
                     wire.build_continuation(sid, block[pos:pos + 16000], end_headers=(pos + 16000 >= len(block))))
            pos += 16000
        res = h.send(data)
        rep.count('header_list_limits_judged')
        rep.count('header_list_limits_judged_after_several_changes')
        if acked < sent:
            rep.count('header_list_limits_judged_with_changes_in_flight')
        rep.nontrivial(('mhls-history', e_client, tuple(vals), acked, delta))
        w = {'role': 'client' if e_client else 'server', 'MAX_HEADER_LIST_SIZE_values_sent': vals, 'acknowledged_frames': acked,
             'limit_in_force': limit, 'list_size': target}
        if target > limit:
            code = getattr(res.exc, 'error_code', None)
            if res.exc is None:
                rep.violation('C27:oversized-header-list-delivered', 'decoded list of %d octets delivered; MAX_HEADER_LIST_SIZE values sent %s, '
                              '%d of them acknowledged, so %d is in force' % (target, vals, acked, limit), w)
                return
            if not isinstance(res.exc, h2.exceptions.ProtocolError) or code is None or int(code) != wire.ENHANCE_YOUR_CALM:
                rep.violation('C27:oversized-header-list-wrong-code:got-%s' % code, 'oversized list refused with %s code %r' %
                              (core.exc_key(res.exc), code), w)
                return
        elif res.exc is not None:
            rep.violation('C27:header-list-within-limit-refused', 'list of %d octets refused; values sent %s, %d acknowledged, limit in force %d: %r' %
                          (target, vals, acked, limit, res.exc), w)
            return


def run_mhls(rng, rep, e_client):
    """Decoded header lists at the acknowledged MAX_HEADER_LIST_SIZE boundary."""
    if rng.random() < 0.5:
        return run_mhls_history(rng, rep, e_client)
    for limit in [100, 65536, rng.choice([0, 33, 500, 4096, 20000])]:
        for companion in [None, {4: 70000}, {5: 20000}, {1: 100}, {3: 7}, {4: 1000, 5: 16385}]:
            for delta in (-1, 0, 1):
                h = scen.Hostile(e_client, keep_log=False)
                t = h.t
                if limit != 65536 or companion:
                    d = dict(companion or {})
                    if limit != 65536:
                        d[6] = limit
                    keys = list(d.items())
                    rng.shuffle(keys)
                    if not t.call('update_settings', dict(keys)).ok:
                        continue
                    if not h.send(wire.build_settings(ack=True)).ok:
                        continue
                base = RESP if e_client else REQ
                size = hm.header_list_size(base)
                target = limit + delta
                if target < size + 33:
                    if limit == 0:
                        hs = base                      # any field at all exceeds a limit of 0
                        target = size
                    else:
                        continue
                else:
                    pad = target - size - 32 - len(b'x-f')
                    hs = base + [(b'x-f', b'f' * pad)]
                assert hm.header_list_size(hs) == target
                if e_client:
                    sid, _ = h.e_request()
                else:
                    sid = h.peer_next
                block = hb(hs)
                if companion and 1 in companion:
                    # E lowered its HEADER_TABLE_SIZE: a conforming encoder acknowledges that at the start of its next block
                    block = hm.table_size_update(companion[1]) + block
                data = wire.build_headers(sid, block[:16000], end_headers=len(block) <= 16000, end_stream=True)
                pos = 16000
                while pos < len(block):
                    data += wire.build_continuation(sid, block[pos:pos + 16000], end_headers=(pos + 16000 >= len(block)))
                    pos += 16000
                res = h.send(data)
                rep.count('header_list_limits_judged')
                rep.nontrivial(('mhls', e_client, limit, repr(companion), delta))
                w = {'role': 'client' if e_client else 'server', 'acknowledged_limit': limit, 'list_size': target,
                     'settings_sent_together': companion}
                if target > limit:
                    if res.exc is None:
                        rep.violation('C27:oversized-header-list-delivered', 'decoded list of %d octets delivered, acknowledged '
                                      'MAX_HEADER_LIST_SIZE %d (set together with %s)' % (target, limit, companion), w)
                        return
                    code = getattr(res.exc, 'error_code', None)
                    if not isinstance(res.exc, h2.exceptions.ProtocolError) or code is None or int(code) != wire.ENHANCE_YOUR_CALM:
                        rep.violation('C27:oversized-header-list-wrong-code:got-%s' % code,
                                      'oversized list refused with %s code %r' % (core.exc_key(res.exc), code), w)
                        return
                else:
                    if res.exc is not None:
                        rep.violation('C27:header-list-within-limit-refused', 'list of %d octets refused (limit %d): %r' %
                                      (target, limit, res.exc), w)
                        return
