"""C24 - alternative-service advertisements follow the RFC 7838 rules.

Grid over sending (role x {origin, stream, both, neither} x stream state) and
receiving (role x stream 0 / stream-bound x origin present / absent x progress
of the client's stream), judged against a table written from RFC 7838 section 4
and the documented interval rule.  "Silently ignored by servers" is checked
differentially: a twin server that never received the ALTSVC frame must behave
identically in a full continuation that includes a push.
"""
import h2.exceptions

from .. import core, scen, wire
from ..scen import REQ, RESP, hb
from .c23 import continuation

LEVEL = 'exploration'
RULE = ('grid enumerated every run: sending = role x target {origin, stream, both, neither} x stream state {idle, open, after 1xx, '
        'after final response, half-closed each way, closed, reserved}; receiving = role x frame stream {0, bound to a stream in '
        'one of 9 progress states incl. after request trailers, never-opened, closed-and-forgotten} x origin {absent, present}; '
        'random cases add stream advertisements made right after a refused response attempt and ALTSVC frames at arbitrary points followed by the differential continuation on servers; '
        'non-trivial = table verdict compared; distinct = grid cell')
MINIMA = {'send_cases_judged': 100, 'receive_cases_judged': 200, 'events_checked': 40, 'server_differential_checked': 300,
          'ignored_frames_checked': 100, 'repeated_advertisements_checked': 40, 'advertisement_after_response_checked': 20, 'advertisement_after_refused_response_attempt': 40, 'request_header_list_changed_by_the_caller_afterwards': 100}
EXHAUSTIVE = {}

SEND_STATES = ['idle-conn', 'idle', 'open', 'after-1xx', 'after-final', 'hc_remote', 'hc_local', 'closed_es', 'closed_rst', 'reserved']
SEND_GRID = [(role, tgt, st) for role in (True, False) for tgt in ('origin', 'stream', 'both', 'neither') for st in SEND_STATES]
RECV_PROGRESS = ['stream0', 'never-opened-odd', 'never-opened-even', 'open', 'open-after-data', 'after-trailers', 'after-1xx',
                 'after-response', 'hc_remote', 'closed_es', 'closed-forgotten', 'reset-forgotten', 'pushed']
RECV_GRID = [(role, prog, org) for role in (True, False) for prog in RECV_PROGRESS for org in (b'', b'alt.example.org')]


def n_cases(tier):
    return len(SEND_GRID) + len(RECV_GRID) + (4000 if tier == 'quick' else 150000)


def run_case(idx, rng, tier, rep):
    if idx < len(SEND_GRID):
        return send_case(SEND_GRID[idx], rep)
    idx -= len(SEND_GRID)
    if idx < len(RECV_GRID):
        return recv_case(RECV_GRID[idx], rep, rng)
    if rng.random() < 0.3:
        return send_case(rng.choice(SEND_GRID), rep)
    if rng.random() < 0.25:
        # a response attempt that is refused sends nothing: the interval for stream advertisements stays open
        return send_case((False, 'stream', rng.choice(['open', 'hc_remote'])), rep,
                         noise=rng.choice(['invalid-response', 'value-not-a-string', 'response-without-status', 'invalid-1xx']))
    if rng.random() < 0.5:
        return recv_case(rng.choice(RECV_GRID), rep, rng)
    return server_differential(rng, rep)


def send_case(cell, rep, noise=None):
    e_client, tgt, state = cell
    h = scen.Hostile(e_client, keep_log=True, handshake=(state != 'idle-conn'))
    t = h.t
    if state == 'idle-conn':
        t.call('initiate_connection')
    sid = None
    expect = None         # True allowed, False refused, None undetermined
    if state == 'idle-conn':
        sid = 1
    elif state == 'idle':
        sid = h.e_next if e_client else h.peer_next
    elif state == 'reserved':
        if e_client:
            par = h.open_stream()
            sid = h.peer_next
            h.send(wire.build_push_promise(par, sid, hb(REQ)))
        else:
            par = h.open_stream()
            sid = h.e_next
            t.call('push_stream', par, sid, REQ)
    elif state in ('after-1xx', 'after-final'):
        sid = h.open_stream()
        if e_client:
            h.peer_headers(sid, [(b':status', b'100')] if state == 'after-1xx' else RESP)
        else:
            t.call('send_headers', sid, [(b':status', b'103')] if state == 'after-1xx' else RESP)
    elif state == 'closed_rst':
        sid = h.reach('closed_rst_sent')
    else:
        sid = h.reach(state)
    if noise is not None:
        bad = {'invalid-response': [(b':status', b'200'), (b'te', b'gzip')], 'value-not-a-string': [(b':status', b'200'), (b'content-length', 0)],
               'response-without-status': [(b'server', b'x')], 'invalid-1xx': [(b':status', b'103'), (b'connection', b'close'), (b'TE', b'x')]}[noise]
        r0 = t.call('send_headers', sid, bad)
        if r0.exc is None or r0.frames:
            rep.count('undetermined:noise-call-accepted')
            return
        rep.count('advertisement_after_refused_response_attempt')
    field = b'h2="alt.example.com:443"; ma=3600'
    kw = {}
    if tgt in ('origin', 'both'):
        kw['origin'] = b'example.com'
    if tgt in ('stream', 'both'):
        kw['stream_id'] = sid
    res = t.call('advertise_alternative_service', field, **kw)
    rep.count('send_cases_judged')
    rep.nontrivial(('send', noise) + cell)
    w = {'cell': ['client' if e_client else 'server', tgt, state], 'refused_call_before': noise, 'log_tail': t.tail_log(3)}
    accepted = res.exc is None
    if res.exc is not None and res.frames:
        rep.violation('C24:refused-advertisement-emitted', 'raising call emitted %s' % [f.name for f in res.frames], w)
        return
    if e_client:
        if accepted:
            rep.violation('C24:client-advertisement-accepted:%s' % state, 'client advertise_alternative_service(%s) succeeded' % tgt, w)
        return
    if tgt in ('both', 'neither'):
        if accepted:
            rep.violation('C24:advertisement-with-%s-target-accepted' % tgt, 'advertise_alternative_service with %s targets succeeded' % tgt, w)
        return
    if tgt == 'origin':
        if not accepted:
            rep.violation('C24:origin-advertisement-refused:%s' % state, 'server origin advertisement refused: %r' % res.exc, w)
            return
        f = res.frames
        if len(f) != 1 or f[0].type != wire.ALTSVC or (f[0].stream_id, f[0].origin, f[0].field) != (0, b'example.com', field):
            rep.violation('C24:origin-advertisement-frame-wrong', 'emitted %s' % [x.brief() for x in f], w)
        return
    # stream advertisement on a server
    allowed = {'open': True, 'hc_remote': True, 'after-1xx': None, 'after-final': False, 'hc_local': False, 'closed_es': False,
               'closed_rst': False, 'idle': False, 'idle-conn': False, 'reserved': None}[state]
    if allowed is None:
        rep.count('undetermined:send-' + state)
        return
    if allowed and not accepted:
        rep.violation('C24:stream-advertisement-refused-inside-interval:%s' % state, 'refused: %r' % res.exc, w)
    elif not allowed and accepted:
        rep.violation('C24:stream-advertisement-accepted-outside-interval:%s' % state, 'accepted in stream state %s' % state, w)
    elif accepted:
        f = res.frames
        if len(f) != 1 or f[0].type != wire.ALTSVC or (f[0].stream_id, f[0].origin, f[0].field) != (sid, b'', field):
            rep.violation('C24:stream-advertisement-frame-wrong', 'emitted %s' % [x.brief() for x in f], w)


def recv_case(cell, rep, rng):
    e_client, prog, origin = cell
    h = scen.Hostile(e_client, keep_log=True)
    t = h.t
    authority = rng.choice([b'example.com', b'shop.example:8443'])
    req = [(b':method', b'POST'), (b':scheme', b'https'), (b':authority', authority), (b':path', b'/')]
    sid = 0
    expect_origin = None          # None => frame must be ignored
    if prog == 'stream0':
        sid = 0
        if e_client and origin:
            expect_origin = origin
    elif prog == 'never-opened-odd':
        sid = 99
    elif prog == 'never-opened-even':
        sid = 98
    else:
        if e_client:
            if prog == 'pushed':
                par, _ = h.e_request(headers=req)
                sid = h.peer_next
                h.send(wire.build_push_promise(par, sid, hb([(b':method', b'GET'), (b':scheme', b'https'),
                                                             (b':authority', b'pushed.example'), (b':path', b'/p')])))
                if not origin:
                    expect_origin = b'pushed.example'
            else:
                sid, _ = h.e_request(headers=req)
                if rng.random() < 0.5:
                    # the application goes on using its own list: what the request said was said when it was sent
                    rep.count('request_header_list_changed_by_the_caller_afterwards')
                    if rng.random() < 0.5:
                        req[2] = (b':authority', b'other.example')
                    else:
                        del req[:]
                if prog == 'open-after-data':
                    t.call('send_data', sid, b'body')
                elif prog == 'after-trailers':
                    t.call('send_data', sid, b'body')
                    t.call('send_headers', sid, [(b'x-trailer', b'1')], end_stream=True)
                elif prog == 'after-1xx':
                    h.peer_headers(sid, [(b':status', b'100')])
                elif prog == 'after-response':
                    h.peer_headers(sid, RESP)
                elif prog == 'hc_remote':
                    h.peer_headers(sid, RESP, end_stream=True)
                elif prog == 'closed_es':
                    t.call('end_stream', sid)
                    h.peer_headers(sid, RESP, end_stream=True)
                elif prog == 'closed-forgotten':
                    t.call('end_stream', sid)
                    h.peer_headers(sid, RESP, end_stream=True)
                    h.e_request(end_stream=True)
                    h.cleanup()
                elif prog == 'reset-forgotten':
                    t.call('reset_stream', sid)
                    h.e_request(end_stream=True)
                    h.cleanup()
                if not origin and prog in ('open', 'open-after-data', 'after-trailers'):
                    expect_origin = authority
                if not origin and prog == 'after-1xx':
                    expect_origin = 'undetermined'
        else:
            sid, _ = h.peer_request(headers=req)
            if prog in ('after-response', 'hc_remote', 'closed_es', 'closed-forgotten'):
                t.call('send_headers', sid, RESP, end_stream=prog in ('closed_es', 'closed-forgotten'))
            if prog == 'reset-forgotten':
                t.call('reset_stream', sid)
            if prog in ('closed-forgotten', 'reset-forgotten'):
                h.peer_request(end_stream=True)
                h.cleanup()
    field = b'h2=":8443"'
    twin = t.clone() if not e_client else None
    res = h.send(wire.build_altsvc(sid, origin, field))
    rep.count('receive_cases_judged')
    rep.nontrivial(('recv',) + cell)
    w = {'cell': ['client' if e_client else 'server', prog, origin], 'log_tail': t.tail_log(3)}
    if res.exc is not None:
        rep.violation('C24:altsvc-frame-raises:%s' % core.exc_key(res.exc), 'ALTSVC (%s, origin %r) raised %r' % (prog, origin, res.exc), w)
        return
    if res.frames:
        rep.violation('C24:altsvc-frame-answered', 'ALTSVC answered with %s' % [f.brief() for f in res.frames], w)
        return
    evs = [e for e in res.events if type(e).__name__ == 'AlternativeServiceAvailable']
    if expect_origin == 'undetermined':
        # after a 1xx block: whether "response headers" have arrived can be read both ways, so the frame may be ignored or
        # reported - but a report names the request's :authority, nothing else
        rep.count('undetermined:recv-after-1xx')
        if res.events:
            rep.count('events_checked')
            if len(evs) != 1 or len(res.events) != 1 or evs[0].origin != authority or evs[0].field_value != field:
                rep.violation('C24:altsvc-event-origin-wrong:%s' % prog, 'events %s, a report must name origin %r' %
                              ([core.ev_brief(e) for e in res.events], authority), w)
        return
    if expect_origin is None:
        rep.count('ignored_frames_checked')
        if res.events:
            kind = 'server' if not e_client else ('conflicting-or-missing-origin' if (bool(origin) == (sid != 0)) else 'stream-progress')
            rep.violation('C24:altsvc-not-ignored:%s:%s' % (kind, prog), 'ALTSVC that must be ignored produced %s' %
                          [core.ev_brief(e) for e in res.events], w)
            return
        if twin is not None:
            rep.count('server_differential_checked')
            a = continuation(t, False, h.e_next, h.peer_next)
            b = continuation(twin, False, h.e_next, h.peer_next)
            if a != b:
                k = next((i for i, (x, y) in enumerate(zip(a, b)) if x != y), min(len(a), len(b)))
                rep.violation('C24:server-behaviour-differs-after-altsvc:%s' % (a[k][0] if k < len(a) else 'length'),
                              'a server that received ALTSVC differs from one that did not at step %d: %r vs %r' %
                              (k, a[k][:2] if k < len(a) else None, b[k][:2] if k < len(b) else None), w)
        return
    rep.count('events_checked')
    if len(evs) != 1 or len(res.events) != 1:
        rep.violation('C24:altsvc-event-missing:%s' % prog, 'expected one AlternativeServiceAvailable, got %s' %
                      [type(e).__name__ for e in res.events], w)
        return
    if evs[0].origin != expect_origin or evs[0].field_value != field:
        rep.violation('C24:altsvc-event-origin-wrong:%s' % prog, 'event origin %r field %r, expected origin %r' %
                      (evs[0].origin, evs[0].field_value, expect_origin), w)
        return
    # receiving the advertisement changes nothing: the same frame again is reported again, the stream then takes its response
    # as usual, and once response headers have arrived a further advertisement on the stream is ignored
    res2 = h.send(wire.build_altsvc(sid, origin, field))
    rep.count('repeated_advertisements_checked')
    ev2 = [e for e in res2.events if type(e).__name__ == 'AlternativeServiceAvailable']
    if res2.exc is not None or len(ev2) != 1 or ev2[0].origin != expect_origin:
        rep.violation('C24:second-advertisement-treated-differently:%s' % prog,
                      'the same ALTSVC frame a second time: exc %r events %s' % (res2.exc, [core.ev_brief(e) for e in res2.events]), w)
        return
    if sid != 0 and prog in ('pushed', 'open', 'open-after-data', 'after-trailers'):
        res3 = h.peer_headers(sid, RESP)
        if res3.exc is not None or [type(e).__name__ for e in res3.events][:1] != ['ResponseReceived']:
            rep.violation('C24:stream-disturbed-by-advertisement:%s' % prog,
                          'response HEADERS after the advertisements: exc %r events %s' % (res3.exc, [type(e).__name__ for e in res3.events]), w)
            return
        res4 = h.send(wire.build_altsvc(sid, origin, field))
        rep.count('advertisement_after_response_checked')
        if res4.exc is not None or res4.events:
            rep.violation('C24:altsvc-not-ignored:stream-progress:after-response-following-advertisements',
                          'ALTSVC after response headers: exc %r events %s' % (res4.exc, [core.ev_brief(e) for e in res4.events]), w)


def server_differential(rng, rep):
    """ALTSVC frames at arbitrary points of a server's life must leave no trace."""
    h = scen.Hostile(False, keep_log=True, handshake=rng.random() < 0.8)
    t = h.t
    if not h.delivered:
        t.call('initiate_connection')
        h.send(wire.PREFACE + wire.build_settings([]))
    for _ in range(rng.randrange(0, 3)):
        h.reach(rng.choice(['open', 'hc_remote', 'closed_es', 'open_resp']))
    twin = t.clone()
    for _ in range(rng.randrange(1, 4)):
        sid = rng.choice([0, 0, 1, 3, 2, 99] + list(h.c.streams))
        res = h.send(wire.build_altsvc(sid, rng.choice([b'', b'o.example']), b'h2=":1"'))
        if res.exc is not None or res.events or res.frames:
            rep.violation('C24:altsvc-not-ignored:server:random', 'server reacted to ALTSVC: exc %r events %s frames %s' %
                          (res.exc, [type(e).__name__ for e in res.events], [f.name for f in res.frames]),
                          {'log_tail': t.tail_log(3)})
            return
    rep.count('server_differential_checked')
    a = continuation(t, False, h.e_next, h.peer_next)
    b = continuation(twin, False, h.e_next, h.peer_next)
    rep.nontrivial(('srv-diff', rng.random()))
    if a != b:
        k = next((i for i, (x, y) in enumerate(zip(a, b)) if x != y), min(len(a), len(b)))
        rep.violation('C24:server-behaviour-differs-after-altsvc:%s' % (a[k][0] if k < len(a) else 'length'),
                      'a server that received ALTSVC differs from one that did not at step %d: %r vs %r' %
                      (k, a[k][:2] if k < len(a) else None, b[k][:2] if k < len(b) else None), {'log_tail': t.tail_log(4)})
