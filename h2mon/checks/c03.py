"""C03 - outbound DATA never exceeds the peer's flow-control windows.

Shadow send windows are computed only from what the scripted peer delivered
(SETTINGS INITIAL_WINDOW_SIZE, WINDOW_UPDATE) and what E put on the wire (DATA
flow-controlled lengths, as parsed by the independent codec).  Checked at every
emitted DATA frame, by querying local_flow_control_window for every live stream
after every step, and with exact-fit / one-byte-more probes.
"""
import h2.exceptions

from .. import core, scen, wire
from ..scen import REQ, RESP, hb

LEVEL = 'exploration'
RULE = ('each case = 30-250 steps interleaving send_data (with/without padding, exact-fit and fit+1 probes), end_stream, '
        'peer WINDOW_UPDATE (stream/connection, incl. exact fit to 2^31-1 and overflow) and peer SETTINGS changing '
        'INITIAL_WINDOW_SIZE up/down/into negative windows and MAX_FRAME_SIZE, over 1-12 streams incl. pushed ones and, on servers, the h2c-upgraded stream 1 whose window comes from the HTTP2-Settings header; '
        'non-trivial = at least one DATA frame checked against the shadow and one probe judged; distinct = hash of the step list')
MINIMA = {'settings_arriving_over_queued_data': 1000, 'data_frames_checked': 5000, 'window_queries_checked': 20000, 'probe_exact_fit_ok': 500,
          'probe_overrun_refused': 500, 'negative_window_states': 100, 'padded_data_checked': 500,
          'reserved_streams_activated': 50, 'upgraded_server_starts': 100}
MAXW = 2 ** 31 - 1


def n_cases(tier):
    return 3000 if tier == 'quick' else 200000


class OutShadow(object):
    def __init__(self):
        self.conn = 65535
        self.iws = 65535          # peer's INITIAL_WINDOW_SIZE as delivered to E
        self.stream = {}          # sid -> window
        self.mfs = 16384

    def created(self, sid):
        self.stream[sid] = self.iws

    def delivered_settings(self, pairs):
        for k, v in pairs:
            if k == wire.S_INITIAL_WINDOW_SIZE:
                d = v - self.iws
                self.iws = v
                for s in self.stream:
                    self.stream[s] += d
            elif k == wire.S_MAX_FRAME_SIZE:
                self.mfs = v

    def window(self, sid):
        return min(self.conn, self.stream[sid])


def run_case(idx, rng, tier, rep):
    e_client = rng.random() < 0.6
    upgraded = (not e_client) and rng.random() < 0.15
    sh = OutShadow()
    can_send = []        # streams E may send DATA on
    reserved = []        # promised streams whose response has not started: they already own a send window
    steps = []
    ctx = {'alive': True}
    if upgraded:
        # h2c upgrade on a server: the client's settings arrive in the HTTP2-Settings header and govern stream 1 from the start
        import base64
        import struct
        iws0 = rng.choice([0, 1, 100, 1000, 65535, 100000, 2 ** 20])
        pairs = [(wire.S_INITIAL_WINDOW_SIZE, iws0)] + ([(wire.S_MAX_FRAME_SIZE, 32768)] if rng.random() < 0.3 else [])
        payload = b''.join(struct.pack('>HI', k, v) for k, v in pairs)
        h = scen.Hostile(False, keep_log=True, handshake=False)
        t = h.t
        r0 = t.call('initiate_upgrade_connection', base64.urlsafe_b64encode(payload).rstrip(b'='))
        if r0.exc is not None:
            rep.violation('C03:upgrade-raises:' + core.exc_key(r0.exc), repr(r0.exc))
            return
        sh.delivered_settings(pairs)
        sh.created(1)
        h.peer_next = 3
        r0 = h.send(wire.PREFACE + wire.build_settings(pairs))
        if not r0.ok:
            return
        steps.append(('upgraded', pairs))
        rep.count('upgraded_server_starts')
        if t.call('send_headers', 1, RESP).ok:
            can_send.append(1)
    else:
        h = scen.Hostile(e_client, keep_log=True)
        t = h.t

    def fail(key, what):
        rep.violation(key, what, {'role': 'client' if e_client else 'server', 'steps_tail': steps[-15:],
                                  'log_tail': t.tail_log(8), 'shadow': {'conn': sh.conn, 'iws': sh.iws,
                                                                        'streams': dict(sh.stream)}})
        ctx['alive'] = False

    def account(res, who):
        """Check every DATA frame E emitted in this call against the shadow, then debit."""
        for f in res.frames:
            if f.type == wire.DATA:
                sid = f.stream_id
                if sid not in sh.stream:
                    fail('C03:data-on-untracked-stream', 'DATA emitted on stream %d unknown to the shadow' % sid)
                    return
                fl = f.flow_len
                rep.count('data_frames_checked')
                if f.pad_length is not None:
                    rep.count('padded_data_checked')
                if fl == 0:
                    continue          # empty DATA frames consume no window and are always allowed (RFC 7540 6.9.1)
                if fl > sh.stream[sid]:
                    fail('C03:data-exceeds-stream-window',
                         'DATA flow-controlled length %d on stream %d exceeds the stream window %d (%s)' % (fl, sid, sh.stream[sid], who))
                    return
                if fl > sh.conn:
                    fail('C03:data-exceeds-connection-window',
                         'DATA flow-controlled length %d exceeds the connection window %d (%s)' % (fl, sh.conn, who))
                    return
                if f.length > sh.mfs:
                    fail('C03:data-exceeds-max-frame-size', 'DATA payload %d > peer MAX_FRAME_SIZE %d' % (f.length, sh.mfs))
                    return
                sh.stream[sid] -= fl
                sh.conn -= fl
            elif f.type == wire.RST_STREAM:
                if f.stream_id in can_send:
                    can_send.remove(f.stream_id)
                if f.stream_id in reserved:
                    reserved.remove(f.stream_id)
            elif f.type == wire.GOAWAY:
                ctx['alive'] = False

    def query_all():
        for sid in list(can_send) + list(reserved):
            r = t.call('local_flow_control_window', sid)
            if r.exc is not None:
                if isinstance(r.exc, h2.exceptions.StreamClosedError):
                    (can_send if sid in can_send else reserved).remove(sid)
                    continue
                fail('C03:window-query-raises-' + type(r.exc).__name__, 'local_flow_control_window(%d) raised %r' % (sid, r.exc))
                return
            rep.count('window_queries_checked')
            want = sh.window(sid)
            if r.value != want:
                which = 'stream' if sh.stream[sid] <= sh.conn else 'connection'
                fail('C03:local_flow_control_window-differs-from-shadow:%s-binding' % which,
                     'local_flow_control_window(%d) = %r, shadow min(conn %d, stream %d) = %d' %
                     (sid, r.value, sh.conn, sh.stream[sid], want))
                return
            if want < 0:
                rep.count('negative_window_states')

    def open_stream():
        if e_client:
            sid, r = h.e_request(headers=scen.REQ_POST)
            if not r.ok:
                return
            sh.created(sid)
            can_send.append(sid)
        else:
            if rng.random() < 0.35 and can_send:
                parents = [s for s in can_send if s % 2 == 1]
                if parents:
                    par = rng.choice(parents)
                    pid = h.e_next
                    r = t.call('push_stream', par, pid, REQ)
                    if not r.ok:
                        return
                    h.e_next += 2
                    sh.created(pid)
                    if rng.random() < 0.6:
                        reserved.append(pid)      # stays reserved (promised, response not started) for a while
                        return
                    r = t.call('send_headers', pid, RESP)
                    if r.ok:
                        can_send.append(pid)
                    return
            sid, r = h.peer_request(headers=scen.REQ_POST)
            if not r.ok:
                ctx['alive'] = False
                return
            sh.created(sid)
            r = t.call('send_headers', sid, RESP)
            if r.ok:
                can_send.append(sid)

    for _ in range(rng.choice([1, 1, 2, 4])):
        open_stream()
    nsteps = rng.choice([30, 80, 250])
    judged_probe = False
    for step in range(nsteps):
        if not ctx['alive']:
            break
        r = rng.random()
        if r < 0.07 and len(sh.stream) < 12:
            steps.append('open')
            open_stream()
        elif r < 0.11 and reserved:
            pid = reserved.pop(0)
            res = t.call('send_headers', pid, RESP)
            steps.append(('start-pushed-response', pid))
            if res.ok:
                can_send.append(pid)
                rep.count('reserved_streams_activated')
        elif r < 0.40 and can_send:
            sid = rng.choice(can_send)
            w = sh.window(sid)
            mode = rng.choice(['small', 'exact', 'over', 'exact-pad', 'over-pad', 'small-pad'])
            pad = None
            if mode.endswith('pad'):
                pad = rng.choice([0, 1, 7, 255])
            overhead = 0 if pad is None else pad + 1
            if mode.startswith('exact'):
                size = w - overhead
            elif mode.startswith('over'):
                size = w + 1 - overhead
            else:
                size = rng.choice([0, 1, 10, 1000])
            if size > 2 ** 17:
                # never build giant payloads: with a huge window probe the frame-size limit instead
                size = rng.choice([sh.mfs - overhead, sh.mfs + 1 - overhead, 1000]) if sh.mfs <= 2 ** 17 else 1000
                mode = 'mfs-probe'
            if size < 0:
                if w < 0:
                    # negative window: any flow-controlled byte must be refused
                    res = t.call('send_data', sid, b'x')
                    steps.append(('send_data-negative', sid, w))
                    account(res, 'negative-window send')
                    if res.exc is None:
                        fail('C03:send-accepted-with-negative-window', 'send_data(1 byte) accepted while window is %d' % w)
                    elif not isinstance(res.exc, h2.exceptions.FlowControlError):
                        fail('C03:negative-window-send-raises-' + type(res.exc).__name__,
                             'send_data with window %d raised %r' % (w, res.exc))
                    elif res.frames:
                        fail('C03:refused-send-emitted-bytes', 'refused send_data emitted %s' % [f.name for f in res.frames])
                continue
            total = size + overhead
            es = rng.random() < 0.08
            data = b'\xaa' * size
            res = t.call('send_data', sid, data, end_stream=es, pad_length=pad)
            steps.append(('send_data', sid, size, pad, es, mode, w))
            expect_fc = total > w
            expect_big = (not expect_fc) and total > sh.mfs
            if expect_fc:
                if res.exc is None:
                    account(res, 'send_data over window')
                    if ctx['alive']:
                        fail('C03:overrun-send-accepted', 'send_data of flow length %d accepted with window %d' % (total, w))
                elif not isinstance(res.exc, h2.exceptions.FlowControlError):
                    fail('C03:overrun-send-raises-' + type(res.exc).__name__,
                         'send_data over the window raised %s not FlowControlError' % core.exc_key(res.exc))
                elif res.frames:
                    fail('C03:refused-send-emitted-bytes', 'refused send_data emitted %s' % [f.name for f in res.frames])
                else:
                    if total == w + 1:
                        rep.count('probe_overrun_refused')
                        judged_probe = True
            elif expect_big:
                if res.exc is None:
                    account(res, 'send_data over frame size')
                    if ctx['alive']:
                        fail('C03:oversize-frame-accepted', 'send_data of %d accepted with MAX_FRAME_SIZE %d' % (total, sh.mfs))
                elif res.frames:
                    fail('C03:refused-send-emitted-bytes', 'refused send_data emitted %s' % [f.name for f in res.frames])
            else:
                if res.exc is not None:
                    fail('C03:fitting-send-refused:' + type(res.exc).__name__,
                         'send_data of flow length %d refused (%s) with window %d, frame limit %d' %
                         (total, core.exc_key(res.exc), w, sh.mfs))
                else:
                    df = [f for f in res.frames if f.type == wire.DATA]
                    if len(res.frames) != 1 or len(df) != 1 or df[0].flow_len != total or df[0].stream_id != sid:
                        fail('C03:send_data-emission-wrong', 'send_data emitted %s, expected one DATA of flow length %d'
                             % ([f.brief() for f in res.frames], total))
                    account(res, 'send_data')
                    if total == w:
                        rep.count('probe_exact_fit_ok')
                        judged_probe = True
                    if es and sid in can_send:
                        can_send.remove(sid)
        elif r < 0.45 and can_send:
            sid = rng.choice(can_send)
            res = t.call('end_stream', sid)
            steps.append(('end_stream', sid))
            account(res, 'end_stream')
            if res.ok:
                can_send.remove(sid)
        elif r < 0.62:
            # peer WINDOW_UPDATE on a stream
            if not sh.stream:
                continue
            sid = rng.choice(list(sh.stream))
            cur = sh.stream[sid]
            inc = rng.choice([1, 100, 65535, max(1, min(MAXW, abs(cur) + 1)), MAXW - cur, MAXW - cur + 1, 2 ** 20])
            if not 1 <= inc <= MAXW:
                continue
            res = h.send(wire.build_window_update(sid, inc))
            steps.append(('peer-wu', sid, inc))
            account(res, 'receive WINDOW_UPDATE')
            if res.exc is not None:
                ctx['alive'] = False
                continue
            if cur + inc > MAXW:
                # stream error FLOW_CONTROL_ERROR: stream is gone
                if sid in can_send:
                    can_send.remove(sid)
                if sid in reserved:
                    reserved.remove(sid)
                rst = [f for f in res.frames if f.type == wire.RST_STREAM and f.stream_id == sid]
                live_at_e = sid in h.c.streams and not h.c.streams[sid].closed
                if not rst and live_at_e:
                    fail('C03:stream-window-overflow-not-rejected', 'WINDOW_UPDATE taking stream %d window to %d accepted' % (sid, cur + inc))
                del sh.stream[sid]
            else:
                sh.stream[sid] = cur + inc
        elif r < 0.74:
            inc = rng.choice([1, 100, 65535, 2 ** 20, MAXW - sh.conn, MAXW - sh.conn + 1])
            if not 1 <= inc <= MAXW:
                continue
            res = h.send(wire.build_window_update(0, inc))
            steps.append(('peer-wu', 0, inc))
            account(res, 'receive WINDOW_UPDATE(0)')
            if sh.conn + inc > MAXW:
                if res.exc is None:
                    fail('C03:connection-window-overflow-not-rejected', 'WINDOW_UPDATE(0) taking the window to %d accepted' % (sh.conn + inc))
                ctx['alive'] = False
                continue
            if res.exc is not None:
                fail('C03:valid-window-update-rejected', 'WINDOW_UPDATE(0,%d) with window %d raised %r' % (inc, sh.conn, res.exc))
                continue
            sh.conn += inc
        elif r < 0.92 and can_send and rng.random() < 0.25:
            # the application has DATA queued that it has not written out yet when the peer lowers INITIAL_WINDOW_SIZE: in the
            # byte stream E produces, that DATA (sent under the old window) comes before the acknowledgement - behind the ACK
            # the new window holds, and DATA that does not fit it may not follow
            sid = rng.choice(can_send)
            room_s, room_c = sh.stream[sid], sh.conn
            for _ in range(rng.choice([1, 2, 3])):
                n = min(room_s, room_c, sh.mfs, rng.choice([1000, 10000, 16384]))
                if n <= 0:
                    break
                if not t.call('send_data', sid, b'q' * n, _drain=False).ok:
                    break
                room_s -= n
                room_c -= n
            v = rng.choice([x for x in (0, 100, 1000, max(0, sh.iws - 1)) if x <= sh.iws])
            res = h.send(wire.build_settings([(wire.S_INITIAL_WINDOW_SIZE, v)]))
            steps.append(('queued-data-then-peer-settings', sid, sh.stream[sid] - room_s, v))
            rep.count('settings_arriving_over_queued_data')
            if res.exc is not None:
                fail('C03:valid-settings-rejected', 'SETTINGS INITIAL_WINDOW_SIZE %d raised %r' % (v, res.exc))
                continue
            acked = False
            for f in res.frames:
                if f.type == wire.SETTINGS and f.ack and not acked:
                    acked = True
                    sh.delivered_settings([(wire.S_INITIAL_WINDOW_SIZE, v)])
                elif f.type == wire.DATA:
                    fl = f.flow_len
                    rep.count('data_frames_checked')
                    if fl and (fl > sh.stream.get(f.stream_id, 0) or fl > sh.conn):
                        fail('C03:data-exceeds-stream-window:%s' % ('behind-the-settings-ack' if acked else 'queued'),
                             'DATA of flow length %d on stream %d comes %s the SETTINGS ACK in the output, where the stream window is %d' %
                             (fl, f.stream_id, 'behind' if acked else 'before', sh.stream.get(f.stream_id, 0)))
                        break
                    if f.stream_id in sh.stream:
                        sh.stream[f.stream_id] -= fl
                    sh.conn -= fl
            if ctx['alive'] and not acked:
                fail('C03:settings-not-acknowledged', 'no SETTINGS ACK among %s' % [x.brief() for x in res.frames])
        elif r < 0.92:
            pairs = []
            if rng.random() < 0.8:
                lo = min(sh.stream.values()) if sh.stream else 0
                cand = [0, 1, sh.iws + 1, max(0, sh.iws - 1), 65535, MAXW, 1000, 2 ** 20]
                if sh.stream:
                    # drive the smallest window to exactly 0 / slightly negative
                    cand += [max(0, sh.iws - lo), max(0, sh.iws - lo - 5)]
                cand = [c for c in cand if 0 <= c <= MAXW]
                pairs.append((wire.S_INITIAL_WINDOW_SIZE, rng.choice(cand)))
            if rng.random() < 0.25:
                pairs.append((wire.S_MAX_FRAME_SIZE, rng.choice([16384, 16385, 20000, 65535, 2 ** 24 - 1])))
            if not pairs:
                continue
            # overflow of any stream window => connection error expected; treat as end of case
            newiws = dict(pairs).get(wire.S_INITIAL_WINDOW_SIZE, sh.iws)
            over = any(wv + (newiws - sh.iws) > MAXW for wv in sh.stream.values())
            res = h.send(wire.build_settings(pairs))
            steps.append(('peer-settings', pairs))
            account(res, 'receive SETTINGS')
            if over:
                ctx['alive'] = False
                continue
            if res.exc is not None:
                fail('C03:valid-settings-rejected', 'SETTINGS %s raised %r' % (pairs, res.exc))
                continue
            sh.delivered_settings(pairs)
        else:
            if can_send and rng.random() < 0.5:
                sid = rng.choice(can_send)
                res = t.call('reset_stream', sid)
                steps.append(('reset', sid))
                if res.ok:
                    can_send.remove(sid)
        if ctx['alive']:
            query_all()
    if rep.counters.get('data_frames_checked') and judged_probe:
        rep.nontrivial((e_client, tuple(map(str, steps))))
    if idx % 293 == 0:
        rep.sample({'role': 'client' if e_client else 'server', 'steps': [str(s) for s in steps[:25]], 'n_steps': len(steps)})
