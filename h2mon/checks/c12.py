"""C12 - SETTINGS values are validated with the RFC-mandated error codes.

Exhaustive grid (ids x boundary values x channel x role x position in a
multi-setting frame) judged against a table written from RFC 7540 section 6.5.2
and RFC 8441 section 3, plus the INITIAL_WINDOW_SIZE-delta overflow sub-grid.
"""
import h2.exceptions
import h2.settings

from .. import core, scen, wire
from ..scen import REQ, RESP, hb

LEVEL = 'fault_enumeration'
RULE = ('grid: ids {0..9,0xff,0x100..0x108,0x7fff,0xffff} x values {0,1,2,3,2^14-1,2^14,2^14+1,2^24-2,2^24-1,2^24,2^31-2,'
        '2^31-1,2^31,2^32-1} x channel {received frame, HTTP2-Settings header of an h2c upgrade (servers), update_settings, Settings(initial_values)} x role x position '
        '(first/last of a two-setting frame), all enumerated every run; then the window-overflow sub-grid (1-5 streams with '
        'send windows at 2^31-1-d, some closed or half-closed, INITIAL_WINDOW_SIZE raised by d-1,d,d+1) and random (id,value) '
        'pairs; non-trivial = verdict of the table compared with the observed reaction; distinct = the grid cell / hash of case')
MINIMA = {'upgrade_header_settings_judged': 500, 'shrink_below_octets_in_flight': 60, 'grid_judged': 4000, 'rejected_with_code_checked': 500, 'accepted_checked': 2000, 'overflow_cases_judged': 250,
          'overflow_expected_error': 50, 'overflow_expected_ok': 50, 'overflow_cases_with_reserved_stream': 100}
EXHAUSTIVE = {}

IDS = list(range(0, 10)) + [0xff] + list(range(0x100, 0x109)) + [0x7fff, 0xffff]
VALUES = [0, 1, 2, 3, 2 ** 14 - 1, 2 ** 14, 2 ** 14 + 1, 2 ** 24 - 2, 2 ** 24 - 1, 2 ** 24, 2 ** 31 - 2, 2 ** 31 - 1, 2 ** 31,
          2 ** 32 - 1]
CHANNELS = ['recv', 'update', 'initial']
GRID = [(ch, role, i, v, pos) for ch in CHANNELS for role in (True, False) for i in IDS for v in VALUES for pos in ('first', 'last')]
# received settings also arrive in the HTTP2-Settings header of an h2c upgrade (servers only)
GRID += [('upgrade', False, i, v, pos) for i in IDS for v in VALUES for pos in ('first', 'last')]
PE, FC = wire.PROTOCOL_ERROR, wire.FLOW_CONTROL_ERROR
MAXW = 2 ** 31 - 1


def expected(i, v):
    """None = accepted, else the mandated error code (RFC 7540 6.5.2, RFC 8441 3)."""
    if i in (2, 8):
        return None if v in (0, 1) else PE
    if i == 4:
        return None if v <= MAXW else FC
    if i == 5:
        return None if 2 ** 14 <= v <= 2 ** 24 - 1 else PE
    return None


def n_cases(tier):
    return len(GRID) + (1500 if tier == 'quick' else 60000) + (3000 if tier == 'quick' else 500000)


def run_case(idx, rng, tier, rep):
    if idx < len(GRID):
        return run_cell(GRID[idx], rng, rep, 'grid')
    idx -= len(GRID)
    nover = 1500 if tier == 'quick' else 60000
    if idx < nover:
        return run_overflow(idx, rng, rep)
    i = rng.choice([rng.randrange(0, 2 ** 16), rng.choice([1, 2, 3, 4, 5, 6, 8])])
    v = rng.choice([rng.randrange(0, 2 ** 32), rng.choice(VALUES), 2 ** rng.randrange(0, 32), 2 ** rng.randrange(0, 32) - 1])
    ch = rng.choice(CHANNELS + ['upgrade'])
    return run_cell((ch, rng.random() < 0.5 and ch != 'upgrade', i, v, rng.choice(['first', 'last'])), rng, rep, 'random')


OTHER = (3, 77)       # a harmless companion setting (MAX_CONCURRENT_STREAMS)


def run_cell(cell, rng, rep, layer):
    ch, e_client, i, v, pos = cell
    want = expected(i, v)
    pairs = [(i, v), OTHER] if pos == 'first' else [OTHER, (i, v)]
    if i == OTHER[0]:
        pairs = [(i, v)]
    role = 'client' if e_client else 'server'
    rep.count('grid_judged')
    rep.nontrivial((layer,) + tuple(cell))
    if len(rep.samples) < 3 and want is not None:
        rep.sample({'channel': ch, 'role': role, 'setting': i, 'value': v, 'position': pos, 'mandated_code': want})
    w = {'cell': list(cell), 'expected_code': want}

    if ch == 'initial':
        exc = None
        s = None
        try:
            s = h2.settings.Settings(client=e_client, initial_values=dict(pairs))
        except Exception as e:      # noqa
            exc = e
        judge_local(rep, 'initial', exc, want, w)
        if exc is None and want is None:
            got = None
            try:
                got = s[i]
            except Exception as e:  # noqa
                got = repr(e)
            if got != v:
                rep.violation('C12:initial-value-not-stored', 'Settings(initial_values={%d: %d})[%d] == %r' % (i, v, i, got), w)
        return
    if ch == 'upgrade':
        import base64
        import struct
        header = base64.urlsafe_b64encode(b''.join(struct.pack('>HI', k, x) for k, x in pairs)).rstrip(b'=')
        t = core.Tap(core.make_conn(False), keep_log=True)
        res = t.call('initiate_upgrade_connection', header)
        w['log_tail'] = t.tail_log(1)
        rep.count('upgrade_header_settings_judged')
        if want is None:
            if res.exc is not None:
                rep.violation('C12:valid-setting-rejected:id-%s' % idclass(i), 'HTTP2-Settings (%#x=%d) raised %s (code %r)' %
                              (i, v, core.exc_key(res.exc), getattr(res.exc, 'error_code', None)), w)
                return
            rep.count('accepted_checked')
            try:
                got = t.c.remote_settings[i]
            except Exception as e:      # noqa
                got = repr(e)
            if got != v:
                rep.violation('C12:accepted-setting-not-reported', 'remote_settings[%#x] == %r after an upgrade carrying %d' % (i, got, v), w)
            return
        if res.exc is None:
            rep.violation('C12:invalid-setting-accepted:id-%d' % i, 'HTTP2-Settings (%d=%d) accepted, expected code %d' % (i, v, want), w)
            return
        code = getattr(res.exc, 'error_code', None)
        if not isinstance(res.exc, h2.exceptions.ProtocolError) or code is None or int(code) != want:
            rep.violation('C12:wrong-code:id-%d:got-%s' % (i, code if code is None else int(code)),
                          'HTTP2-Settings (%d=%d): %s with code %r, mandated %d' % (i, v, core.exc_key(res.exc), code, want), w)
            return
        rep.count('rejected_with_code_checked')
        return
    h = scen.Hostile(e_client, keep_log=True)
    w['role'] = role
    if ch == 'update':
        res = h.t.call('update_settings', dict(pairs))
        judge_local(rep, 'update_settings', res.exc, want, w)
        if res.exc is not None and res.frames:
            rep.violation('C12:refused-update_settings-emitted', 'refused update_settings emitted %s' % [f.brief() for f in res.frames], w)
        if res.exc is None and want is None:
            sf = [f for f in res.frames if f.type == wire.SETTINGS and not f.ack]
            if len(sf) != 1:
                rep.violation('C12:update_settings-no-frame', 'accepted update_settings emitted %s' % [f.name for f in res.frames], w)
            elif i < 0x100 and (i, v) not in sf[0].settings:
                rep.violation('C12:update_settings-pair-missing', 'SETTINGS %s lacks (%d,%d)' % (sf[0].settings, i, v), w)
        return
    # received frame
    res = h.send(wire.build_settings(pairs))
    w['log_tail'] = h.t.tail_log(2)
    if want is None:
        if res.exc is not None:
            rep.violation('C12:valid-setting-rejected:id-%s' % idclass(i),
                          'received SETTINGS (%#x=%d) raised %s (code %r)' % (i, v, core.exc_key(res.exc), getattr(res.exc, 'error_code', None)), w)
            return
        rep.count('accepted_checked')
        acks = [f for f in res.frames if f.type == wire.SETTINGS and f.ack]
        if len(acks) != 1:
            rep.violation('C12:accepted-settings-not-acked', 'accepted SETTINGS answered with %s' % [f.brief() for f in res.frames], w)
        ev = [e for e in res.events if type(e).__name__ == 'RemoteSettingsChanged']
        if len(ev) != 1 or int(getattr(ev[0].changed_settings.get(i), 'new_value', -1) if ev else -1) != v:
            rep.violation('C12:accepted-setting-not-reported', 'RemoteSettingsChanged does not report %#x -> %d' % (i, v), w)
        return
    if res.exc is None:
        rep.violation('C12:invalid-setting-accepted:id-%d' % i, 'received SETTINGS (%d=%d) accepted, expected code %d' % (i, v, want), w)
        return
    code = getattr(res.exc, 'error_code', None)
    if not isinstance(res.exc, h2.exceptions.ProtocolError) or code is None or int(code) != want:
        rep.violation('C12:wrong-code:id-%d:got-%s' % (i, code if code is None else int(code)),
                      'received SETTINGS (%d=%d): %s with code %r, mandated %d' % (i, v, core.exc_key(res.exc), code, want), w)
        return
    g = [f for f in res.frames if f.type == wire.GOAWAY]
    if len(g) != 1 or g[0].error_code != want:
        rep.violation('C12:goaway-code-wrong:id-%d' % i, 'GOAWAY frames %s, mandated code %d' % ([f.brief() for f in g], want), w)
        return
    rep.count('rejected_with_code_checked')


def idclass(i):
    return str(i) if i in (1, 2, 3, 4, 5, 6, 8) else 'unknown'


def judge_local(rep, chan, exc, want, w):
    if want is None:
        if exc is not None:
            rep.violation('C12:valid-setting-refused-locally:%s:id-%s' % (chan, idclass(w['cell'][2])),
                          '%s refused (%#x=%d): %r' % (chan, w['cell'][2], w['cell'][3], exc), w)
        else:
            rep.count('accepted_checked')
        return
    if exc is None:
        rep.violation('C12:invalid-setting-accepted-locally:%s:id-%d' % (chan, w['cell'][2]),
                      '%s accepted (%d=%d), mandated code %d' % (chan, w['cell'][2], w['cell'][3], want), w)
        return
    code = getattr(exc, 'error_code', None)
    if not isinstance(exc, h2.exceptions.ProtocolError) or code is None or int(code) != want:
        rep.violation('C12:wrong-code-locally:%s:id-%d:got-%s' % (chan, w['cell'][2], code if code is None else int(code)),
                      '%s (%d=%d) raised %s code %r, mandated %d' % (chan, w['cell'][2], w['cell'][3], type(exc).__name__, code, want), w)
        return
    rep.count('rejected_with_code_checked')


def run_shrink(rng, rep):
    """Every in-range INITIAL_WINDOW_SIZE is accepted, also one below what the endpoint already has in flight on a stream: the
    window then goes negative (RFC 7540 6.9.2), the frame is acknowledged and reported like any other."""
    e_client = rng.random() < 0.5
    h = scen.Hostile(e_client, keep_log=True)
    t = h.t
    sid = h.reach('open')
    if not e_client and not t.call('send_headers', sid, RESP).ok:
        return
    used = rng.choice([1, 1000, 16384, 40000, 65535])
    left = used
    while left > 0:
        n = min(left, 16384)
        if not t.call('send_data', sid, b's' * n).ok:
            return
        left -= n
    v = rng.choice([0, 1, used - 1, used, used + 1, 100, 65535, 2 ** 31 - 1])
    v = max(0, v)
    res = h.send(wire.build_settings([(4, v)]))
    rep.count('shrink_cases_judged')
    if v < used:
        rep.count('shrink_below_octets_in_flight')
    w = {'role': 'client' if e_client else 'server', 'octets_in_flight': used, 'new_initial_window_size': v, 'log_tail': t.tail_log(2)}
    rep.nontrivial(('shrink', e_client, used, v))
    if res.exc is not None:
        rep.violation('C12:valid-setting-rejected:id-4', 'received INITIAL_WINDOW_SIZE %d with %d octets in flight raised %s' %
                      (v, used, core.exc_key(res.exc)), w)
        return
    acks = [f for f in res.frames if f.type == wire.SETTINGS and f.ack]
    ev = [e for e in res.events if type(e).__name__ == 'RemoteSettingsChanged']
    if len(acks) != 1 or len(ev) != 1:
        rep.violation('C12:accepted-settings-not-acked', 'INITIAL_WINDOW_SIZE %d with %d in flight: frames %s events %s' %
                      (v, used, [f.brief() for f in res.frames], [type(e).__name__ for e in res.events]), w)
        return
    lw = t.call('local_flow_control_window', sid)
    if lw.exc is not None or lw.value != min(v - used, 65535 - used):
        rep.violation('C12:window-after-accepted-setting-wrong', 'local_flow_control_window(%d) = %r after INITIAL_WINDOW_SIZE %d with %d in flight' %
                      (sid, lw.value if lw.exc is None else lw.exc, v, used), w)


def run_overflow(idx, rng, rep):
    """INITIAL_WINDOW_SIZE delta against stream send windows close to 2^31-1."""
    if rng.random() < 0.25:
        return run_shrink(rng, rep)
    e_client = rng.random() < 0.5
    h = scen.Hostile(e_client, keep_log=True)
    t = h.t
    d = rng.choice([1, 2, 10, 1000, 65535])
    n = rng.randrange(1, 6)
    live = {}        # sid -> shadow send window, only streams that still have a window (not closed)
    order = []
    for k in range(n):
        st = rng.choice(['open', 'open_resp', 'hc_remote', 'hc_local', 'closed_rst_sent', 'closed_rst_recv', 'closed_es'] +
                        ([] if e_client else ['reserved_local', 'reserved_local']))
        if st == 'reserved_local':
            # a stream the server has promised and not started yet: it has a send window like any other
            par = h.reach('open')
            sid = h.e_next
            h.e_next += 2
            if not t.call('push_stream', par, sid, scen.REQ).ok:
                return
            rep.count('overflow_cases_with_reserved_stream')
            order.append((par, 'open'))
            live[par] = 65535
        else:
            sid = h.reach(st)
        order.append((sid, st))
        if not st.startswith('closed'):
            live[sid] = 65535
    # raise some windows close to the limit (also on streams that get closed afterwards)
    near = []
    for sid, st in order:
        if rng.random() < 0.6:
            target = MAXW - d + rng.choice([0, 0, -1, -5])
            if sid in live:
                r = h.send(wire.build_window_update(sid, target - live[sid]))
                if not r.ok:
                    return
                live[sid] = target
                near.append(sid)
            else:
                # WINDOW_UPDATE on a closed stream is ignored: its stale window must not matter either
                h.send(wire.build_window_update(sid, MAXW - d - 65535))
    if rng.random() < 0.3 and live:
        # close one of the near-limit streams now; it lingers in the stream table
        sid = rng.choice(list(live))
        r = t.call('reset_stream', sid)
        if r.ok:
            del live[sid]
    if rng.random() < 0.3:
        h.cleanup()
    delta = rng.choice([d - 1, d, d + 1, d + 1])
    new_iws = 65535 + delta
    overflow = any(wv + delta > MAXW for wv in live.values())
    res = h.send(wire.build_settings([(wire.S_INITIAL_WINDOW_SIZE, new_iws)]))
    rep.count('overflow_cases_judged')
    rep.nontrivial(('overflow', e_client, tuple(order), d, delta, tuple(sorted(live.items()))))
    w = {'role': 'client' if e_client else 'server', 'streams': order, 'live_windows': dict(live), 'delta': delta,
         'log_tail': t.tail_log(4)}
    if overflow:
        rep.count('overflow_expected_error')
        code = getattr(res.exc, 'error_code', None)
        if res.exc is None:
            rep.violation('C12:iws-delta-overflow-accepted', 'INITIAL_WINDOW_SIZE +%d accepted although a live stream window would '
                          'exceed 2^31-1' % delta, w)
        elif not isinstance(res.exc, h2.exceptions.ProtocolError) or code is None or int(code) != FC:
            rep.violation('C12:iws-delta-overflow-wrong-code', 'overflowing INITIAL_WINDOW_SIZE change raised %s code %r' %
                          (core.exc_key(res.exc), code), w)
        else:
            g = [f for f in res.frames if f.type == wire.GOAWAY]
            if len(g) != 1 or g[0].error_code != FC:
                rep.violation('C12:iws-delta-overflow-goaway-wrong', 'GOAWAY %s' % [f.brief() for f in g], w)
    else:
        rep.count('overflow_expected_ok')
        if res.exc is not None:
            rep.violation('C12:iws-delta-without-overflow-rejected', 'INITIAL_WINDOW_SIZE +%d rejected (%s) although no live stream '
                          'window exceeds 2^31-1' % (delta, core.exc_key(res.exc)), w)
