"""C05 - automatic window management never deadlocks and never over-credits.

Liveness is restated as a safety property at quiescent points: when every
received flow-controlled byte has been passed to acknowledge_received_data (DATA
on closed streams is acknowledged by the library itself), the advertised
connection window and the advertised window of every open stream whose maximum
is positive must be positive.  At all times the sum of automatic WINDOW_UPDATE
increments per scope must not exceed the bytes acknowledged for that scope and
no advertised window may exceed its maximum.
"""
from .. import core, wire
from . import c04

LEVEL = 'exploration'
RULE = ('each case = 40-400 steps: stream maxima set via update_settings(INITIAL_WINDOW_SIZE)+ACK from {0,1,2,3,4,5,7,8,1023,'
        '1024,1025,4095,4096,4097,65535,2^20,2^31-1} and changed mid-history; peer DATA (with padding) always within the '
        'shadow windows incl. to exhaustion; acknowledgements in random splits and delays; resets/END_STREAM so later DATA '
        'lands on closed streams (padded too; one case in ten floods a reset stream with up to 900 heavily padded frames); a quiescent point (everything acknowledged) forced every 5-30 steps; non-trivial = at '
        'least one quiescent point evaluated after a window was exhausted or a maximum changed; distinct = hash of step list')
MINIMA = {'quiescent_points': 3000, 'quiescent_stream_checks': 3000, 'credit_checks': 20000, 'exhausted_windows': 500,
          'maximum_changes': 300, 'quiescent_after_max_lowered': 100,
          'padded_data_on_closed_stream': 5000, 'closed_stream_pad_floods_beyond_one_window': 100}
MAXW = 2 ** 31 - 1
MAXIMA = [0, 1, 2, 3, 4, 5, 7, 8, 1023, 1024, 1025, 4095, 4096, 4097, 65535, 2 ** 20, MAXW]


def n_cases(tier):
    return 4000 if tier == 'quick' else 250000


def run_case(idx, rng, tier, rep):
    e_client = rng.random() < 0.5
    d = c04.Driver(rng, e_client, rep, 'C05')
    sh, t, h = d.sh, d.t, d.h
    acked = {0: 0}          # scope -> bytes acknowledged (connection scope includes library auto-acks)
    credited = {0: 0}       # scope -> sum of automatic WINDOW_UPDATE increments
    lowered = [False]
    interesting = [False]

    orig_account_out = d.account_out

    def account(res):
        for f in res.frames:
            if f.type == wire.WINDOW_UPDATE and not f.defects:
                credited[f.stream_id] = credited.get(f.stream_id, 0) + f.increment
        orig_account_out(res)

    d.account_out = account        # deliver_data() reports E's output through this too

    def check_invariants():
        """over-credit / above-maximum checks, evaluated after every step"""
        if not d.alive:
            return
        rep.count('credit_checks')
        for scope, c in credited.items():
            if c > acked.get(scope, 0):
                d.fail('C05:over-credit:%s' % ('connection' if scope == 0 else 'stream'),
                       'automatic WINDOW_UPDATE increments for scope %d sum to %d but only %d bytes were acknowledged' %
                       (scope, c, acked.get(scope, 0)))
                return
        if sh.conn > 65535:
            d.fail('C05:connection-window-above-maximum', 'advertised connection window %d > 65535' % sh.conn)
            return
        for sid, w in sh.stream.items():
            if w > sh.stream_max[sid] or w > MAXW:
                d.fail('C05:stream-window-above-maximum', 'advertised window of stream %d is %d, maximum %d' %
                       (sid, w, sh.stream_max[sid]))
                return

    def set_max(v, ack_delay=0):
        if sh.iws_pending:
            return
        res = t.call('update_settings', {wire.S_INITIAL_WINDOW_SIZE: v})
        d.steps.append(('update_settings', v))
        if res.exc is not None:
            d.fail('C05:valid-update-settings-refused', 'update_settings(IWS=%d) raised %r' % (v, res.exc))
            return
        account(res)

    def deliver_ack():
        if not sh.iws_pending:
            return
        old = sh.iws_acked
        res = h.send(wire.build_settings(ack=True))
        dlt = sh.ack_delivered()
        d.steps.append(('settings-ack', dlt))
        if res.exc is not None:
            d.fail('C05:settings-ack-rejected', 'SETTINGS ACK raised %r' % res.exc)
            return
        account(res)
        if dlt:
            rep.count('maximum_changes')
            interesting[0] = True
        if dlt < 0:
            lowered[0] = True
            for sid in sh.stream:
                ack_since_lowered[sid] = False

    def ack(sid, k):
        res = t.call('acknowledge_received_data', k, sid)
        ack_since_lowered[sid] = True
        d.steps.append(('ack', sid, k))
        if res.exc is not None:
            d.fail('C05:acknowledge-raises:' + core.exc_key(res.exc), 'acknowledge_received_data(%d,%d) raised %r' % (k, sid, res.exc))
            return
        d.unacked[sid] -= k
        acked[0] += k
        acked[sid] = acked.get(sid, 0) + k
        account(res)

    def quiesce():
        for sid in [s for s, n in d.unacked.items() if n]:
            while d.alive and d.unacked.get(sid):
                n = d.unacked[sid]
                k = rng.choice([n, n, max(1, n // 2), 1, min(n, 1024)])
                ack(sid, k)
        # also acknowledge data of streams that ended / were reset meanwhile (the app still holds those bytes)
        for sid in [s for s, n in list(late.items()) if n]:
            n = late[sid]
            res = t.call('acknowledge_received_data', n, sid)
            d.steps.append(('ack-late', sid, n))
            late[sid] = 0
            if res.exc is not None:
                d.fail('C05:acknowledge-raises:' + core.exc_key(res.exc), 'acknowledge_received_data on ended stream raised %r' % res.exc)
                return
            acked[0] += n
            acked[sid] = acked.get(sid, 0) + n
            account(res)
        check_invariants()
        if not d.alive:
            return
        rep.count('quiescent_points')
        if lowered[0]:
            rep.count('quiescent_after_max_lowered')
        d.steps.append('quiescent')
        if sh.conn <= 0:
            d.fail('C05:connection-window-stalled', 'all received bytes acknowledged but the advertised connection window is %d' % sh.conn)
            return
        for sid in d.accepts:
            rep.count('quiescent_stream_checks')
            if sh.stream_max[sid] > 0 and sh.stream[sid] <= 0:
                if ack_since_lowered.get(sid, True):
                    key = 'C05:stream-window-stalled'
                else:
                    # the window manager is only re-evaluated inside acknowledge_received_data: nothing was
                    # acknowledged for this stream since its maximum shrank, so the uncredited bytes stay uncredited
                    key = 'C05:stream-window-stalled:maximum-lowered-and-nothing-acknowledged-since'
                d.fail(key, 'all received bytes acknowledged but stream %d advertises window %d (maximum %d)' %
                       (sid, sh.stream[sid], sh.stream_max[sid]))
                return

    late = {}
    flood_bytes = [0]
    ack_since_lowered = {}      # sid -> acknowledge_received_data called for it since its maximum was last lowered
    if rng.random() < 0.7:
        set_max(rng.choice(MAXIMA))
        deliver_ack()
    for _ in range(rng.choice([1, 1, 2, 3])):
        if d.alive:
            d.open_stream()
    nsteps = rng.choice([40, 150, 400])
    # one case in ten: a flood of small, heavily padded DATA frames on a stream that was reset (the library acknowledges those
    # itself): every octet of them, padding included, has to come back or the connection window drains for good
    flood = rng.random() < 0.1
    if flood:
        nsteps = 900
        rep.count('closed_stream_pad_flood_cases')
    next_q = rng.randrange(5, 31)
    for step in range(nsteps):
        if not d.alive:
            break
        r = rng.random()
        if flood and d.closed and r < 0.93:
            sid = rng.choice(d.closed)
            pad = rng.choice([255, 255, 200, 100, 17])
            tot = pad + 1 + rng.choice([0, 1, 1, 20])
            if sh.conn < tot:
                # the peer is out of connection window: everything was acknowledged (by the library), so this is a stall
                quiesce()
                continue
            if d.deliver_data(sid, tot - pad - 1, pad, closed_stream=True):
                acked[0] += tot
                rep.count('padded_data_on_closed_stream')
                flood_bytes[0] += tot
        elif flood and not d.closed and d.accepts and r < 0.5:
            sid = rng.choice(d.accepts)
            res = t.call('reset_stream', sid)
            d.steps.append(('reset', sid))
            if res.ok:
                d.accepts.remove(sid)
                late[sid] = d.unacked.pop(sid, 0)
                d.closed.append(sid)
        elif r < 0.05 and len(sh.stream) < 10:
            d.open_stream()
        elif r < 0.08:
            d.activate_reserved()
        elif r < 0.55 and d.accepts:
            sid = rng.choice(d.accepts)
            w = sh.window(sid)
            if w <= 0:
                continue
            pad = rng.choice([None, None, None, 0, 1, 7, 255])
            over = 0 if pad is None else pad + 1
            tot = rng.choice([w, w, min(w, 16384), max(1, w // 2), 1, 10, 1000])
            tot = min(tot, w, 16384)
            if tot < over or tot <= 0:
                continue
            es = rng.random() < 0.04
            before_conn = sh.conn
            ok = d.deliver_data(sid, tot - over, pad, end_stream=es)
            if ok:
                if sh.conn == 0 or sh.stream.get(sid) == 0:
                    rep.count('exhausted_windows')
                    interesting[0] = True
                if es:
                    late[sid] = d.unacked.pop(sid, 0)
        elif r < 0.60 and d.closed:
            sid = rng.choice(d.closed)
            w = sh.conn
            if w <= 0:
                continue
            tot = min(rng.choice([w, 1, 100, 5000]), w, 16384)
            pad = rng.choice([None, None, 0, 9, 255])
            over = 0 if pad is None else pad + 1
            if tot < over:
                pad, over = None, 0
            ok = d.deliver_data(sid, tot - over, pad, closed_stream=True)
            if ok:
                acked[0] += tot        # the library acknowledges DATA on closed streams itself, padding included
                if pad is not None:
                    rep.count('padded_data_on_closed_stream')
        elif r < 0.80 and any(d.unacked.values()):
            sid = rng.choice([s for s, n in d.unacked.items() if n])
            n = d.unacked[sid]
            k = rng.choice([n, max(1, n // 2), 1, min(n, 1024), min(n, 1025), 0])
            if k == 0:
                ack_since_lowered[sid] = True
                res = t.call('acknowledge_received_data', 0, sid)
                account(res)
                continue
            ack(sid, k)
        elif r < 0.86:
            set_max(rng.choice(MAXIMA))
        elif r < 0.92:
            deliver_ack()
        elif r < 0.95 and d.accepts:
            sid = rng.choice(d.accepts)
            res = t.call('reset_stream', sid)
            d.steps.append(('reset', sid))
            if res.ok:
                d.accepts.remove(sid)
                late[sid] = d.unacked.pop(sid, 0)
                d.closed.append(sid)
        check_invariants()
        next_q -= 1
        if next_q <= 0 and d.alive:
            quiesce()
            next_q = rng.randrange(5, 31)
    if d.alive:
        quiesce()
    if flood_bytes[0] > 70000:
        rep.count('closed_stream_pad_floods_beyond_one_window')
    if interesting[0] and rep.counters.get('quiescent_points'):
        rep.nontrivial((e_client, tuple(str(s) for s in d.steps)))
    if idx % 397 == 0:
        rep.sample({'role': 'client' if e_client else 'server', 'steps': [str(s) for s in d.steps[:30]], 'n_steps': len(d.steps)})
