"""C28 - output is a deterministic function of the call sequence.

Programs (sequences of public calls with their arguments, including the bytes
passed to receive_data) are recorded once while a seeded generator drives a real
endpoint, then replayed - twice in one process and in separate interpreter
processes with different PYTHONHASHSEED values.  A per-step transcript digest
(emitted bytes, canonical events, exception type + error code + message text with
set literals put in order) must be identical everywhere.  While replaying, clock / randomness /
socket entry points are replaced by tripwires.
"""
import hashlib
import json
import os
import subprocess
import sys
import tempfile
import time
from concurrent.futures import ThreadPoolExecutor

LEVEL = 'exploration'
RULE = ('each program = 10-80 recorded public calls on one endpoint (hostile-peer traffic incl. header blocks with repeated '
        'content-length / host fields, settings frames with many keys, API fuzzing with dict-valued arguments, error paths, groups '
        'of streams closed together until a lowered MAX_CLOSED_STREAMS is exceeded, then late frames on the oldest of them); '
        'replayed twice in-process (the second time in the opposite order of programs) and in fresh interpreters (every other one in '
        'reverse order: no connection may depend on the connections served before it) under PYTHONHASHSEED in {0,1,2,12345,<seed-derived>} (8 values in '
        'thorough); non-trivial = program with >= 5 steps whose digests were compared across all replays; distinct = hash of '
        'the program')
ASSUMPTIONS = ['exception message text is compared after the elements of set literals in it have been put in order (the library formats sets of header names into some messages; their order follows the hash seed)']
PROP = 'C28'
import re
_SET_LITERAL = re.compile(r'\{[^{}]*\}')
SHARED_FIELDS = [(b'x-shared-a', b'1'), (b'x-shared-b', b'two'), (b'x-shared-c', b' three'), (b'accept', b'*/*'), (b'x-token', b'secret')]


def _enc(x):
    if isinstance(x, (bytes, bytearray)):
        return {'b': bytes(x).hex()}
    if isinstance(x, tuple):
        cls = type(x).__name__
        if cls in ('HeaderTuple', 'NeverIndexedHeaderTuple'):
            return {'ht': cls, 'v': [_enc(i) for i in x]}
        return {'t': [_enc(i) for i in x]}
    if isinstance(x, list):
        return [_enc(i) for i in x]
    if isinstance(x, dict):
        return {'d': [[_enc(k), _enc(v)] for k, v in x.items()]}
    return x


def _dec(x):
    if isinstance(x, dict):
        if 'b' in x:
            return bytes.fromhex(x['b'])
        if 't' in x:
            return tuple(_dec(i) for i in x['t'])
        if 'ht' in x:
            import hpack
            return getattr(hpack, x['ht'])(*[_dec(i) for i in x['v']])
        if 'd' in x:
            return {_dec(k): _dec(v) for k, v in x['d']}
    if isinstance(x, list):
        return [_dec(i) for i in x]
    return x


def _make_conn(client, cfg):
    """cfg may carry 'max_closed': the documented class-level knob H2Connection.MAX_CLOSED_STREAMS, lowered through a
    subclass so that short programs cross the cap of the closed-stream memory."""
    import h2.config
    import h2.connection
    cfg = dict(cfg)
    cap = cfg.pop('max_closed', None)
    cls = h2.connection.H2Connection
    if cap is not None:
        cls = type('H2ConnectionWithSmallClosedStreamMemory', (cls,), {'MAX_CLOSED_STREAMS': cap})
    return cls(config=h2.config.H2Configuration(client_side=client, **cfg))


# ---------------------------------------------------------------------------
# child side

def record_programs(seed, start, count):
    from h2mon import core, gen, scen, wire, hpackmini as hm
    import h2.exceptions
    progs = []

    import hpack

    def retype(rng, hs):
        """The same fields as plain tuples, HeaderTuples or NeverIndexedHeaderTuples (a small shared pool of extra fields makes
        different programs send equal pairs in different forms)."""
        out = []
        for n, v in list(hs) + [rng.choice(SHARED_FIELDS) for _ in range(rng.choice([0, 1, 2]))]:
            r0 = rng.random()
            out.append((n, v) if r0 < 0.5 else hpack.HeaderTuple(n, v) if r0 < 0.75 else hpack.NeverIndexedHeaderTuple(n, v))
        return out

    class Rec(core.Tap):
        def __init__(self, conn):
            core.Tap.__init__(self, conn, keep_log=False)
            self.ops = []

        def call(self, op, *args, **kw):
            kw2 = {k: v for k, v in kw.items() if k != '_drain'}
            self.ops.append([op, _enc(list(args)), _enc(kw2)])
            return core.Tap.call(self, op, *args, **kw)

    for idx in range(start, start + count):
        rng = core.case_rng(seed, PROP, idx)
        e_client = rng.random() < 0.5
        cfg = dict(header_encoding=rng.choice([None, None, 'utf-8']),
                   validate_inbound_headers=rng.random() < 0.85, normalize_inbound_headers=rng.random() < 0.85)
        kind = rng.choice(['hostile', 'hostile', 'api', 'dup-fields', 'settings', 'churn'])
        if kind == 'churn' or rng.random() < 0.25:
            cfg['max_closed'] = rng.choice([4, 8, 16, 32])
        t = Rec(_make_conn(e_client, cfg))
        t.call('initiate_connection')
        pg = gen.PeerGen(rng, e_client, hostile=rng.choice([0.0, 0.1, 0.3]), hdr_hostile=rng.choice([0.0, 0.2]))
        t.call('receive_data', pg.preface([(k, v) for k, v in [(1, 8192), (3, 50), (4, 70000), (5, 20000), (6, 9000), (0x21, 7),
                                                            (8, 1)] if rng.random() < 0.5]))
        nsid = 1
        if kind == 'hostile':
            for _ in range(rng.choice([5, 15, 40])):
                if e_client and rng.random() < 0.3:
                    r = t.call('send_headers', nsid, retype(rng, gen.valid_headers(rng, 'request')), end_stream=rng.random() < 0.5)
                    if r.ok:
                        pg.note_e_stream(nsid)
                    nsid += 2
                msg = pg.step()
                if rng.random() < 0.1:
                    msg = gen.mutate_bytes(rng, msg)
                for ch in gen.chunkings(rng, msg, k=rng.choice([1, 1, 2, 3])):
                    t.call('receive_data', ch)
        elif kind == 'dup-fields':
            # repeated content-length / host fields whose values differ, then DATA matching one of them
            for rep_i in range(rng.choice([1, 2, 4])):
                cls = [rng.choice([b'5', b'10', b'7', b'3']) for _ in range(rng.choice([2, 2, 3]))]
                hosts = [rng.choice([b'example.com', b'other.example', b'third.example']) for _ in range(rng.choice([0, 2, 3]))]
                # repeated cookie crumbs, some byte-identical and some not: how they are joined must not depend on the process
                crumbs = [rng.choice([b'a=1', b'b=2', b'c=3', b'sid=0123456789abcdefghij', b'']) for _ in range(rng.choice([0, 3, 4, 6]))]
                extra = [(b'content-length', v) for v in cls] + [(b'host', v) for v in hosts] + [(b'cookie', v) for v in crumbs]
                rng.shuffle(extra)
                if e_client:
                    # outbound: the same lists through send_headers (validation of :authority against host)
                    hs = [(b':method', b'POST'), (b':scheme', b'https'), (b':authority', b'example.com'), (b':path', b'/')] + \
                        [(b'host', v) for v in hosts]
                    r = t.call('send_headers', nsid, hs)
                    sid = nsid
                    nsid += 2
                    if not r.ok:
                        continue
                    t.call('receive_data', wire.build_headers(sid, hm.encode([(b':status', b'200')] + [(b'content-length', v) for v in cls] +
                                                                              [(b'cookie', v) for v in crumbs])))
                else:
                    sid = pg.next_sid
                    pg.next_sid += 2
                    hs = [(b':method', b'POST'), (b':scheme', b'https'), (b':authority', b'example.com'), (b':path', b'/')] + extra
                    t.call('receive_data', wire.build_headers(sid, hm.encode(hs)))
                t.call('receive_data', wire.build_data(sid, b'1234567'))
                t.call('receive_data', wire.build_data(sid, b'890', end_stream=True))
        elif kind == 'churn':
            # streams are opened and closed in groups, so that several are swept into the closed-stream memory in one pass,
            # until the memory's cap is exceeded by less than one group; then late frames arrive on the oldest streams:
            # which of them are still remembered (stream error) and which forgotten (connection error) is part of the transcript
            cap = cfg['max_closed']
            group = rng.choice([3, 5, 7, 9])
            excess = rng.randrange(1, group)
            total = cap + excess
            total += (-total) % group                    # whole groups ...
            groups = total // group + 1                  # ... and one more opening, which sweeps the last group
            req = hm.encode([(b':method', b'GET'), (b':scheme', b'https'), (b':authority', b'example.com'), (b':path', b'/')])
            opened = []
            for g in range(groups):
                ids = []
                if e_client:
                    for _ in range(group if g < groups - 1 else 1):
                        r = t.call('send_headers', nsid, gen.valid_headers(rng, 'request'))
                        if r.ok:
                            ids.append(nsid)
                        nsid += 2
                else:
                    data = b''
                    for _ in range(group if g < groups - 1 else 1):
                        ids.append(pg.next_sid)
                        data += wire.build_headers(pg.next_sid, req)
                        pg.next_sid += 2
                    t.call('receive_data', data)
                if g == groups - 1:
                    break
                opened.append(ids)
                closers = [rng.choice(['peer-rst', 'peer-rst', 'own-rst', 'end']) for _ in ids]
                data = b''
                for sid, how in zip(ids, closers):
                    if how == 'peer-rst':
                        data += wire.build_rst(sid, rng.choice([0, 8]))
                    elif how == 'own-rst':
                        t.call('reset_stream', sid)
                    elif e_client:
                        t.call('end_stream', sid)
                        data += wire.build_headers(sid, hm.encode([(b':status', b'200')]), end_stream=True)
                    else:
                        data += wire.build_data(sid, b'', end_stream=True)
                        t.call('send_headers', sid, [(b':status', b'204')], end_stream=True)
                if data:
                    t.call('receive_data', data)
            probes = [sid for ids in opened[:2] for sid in ids]
            rng.shuffle(probes)
            for sid in probes:
                late = rng.choice([wire.build_window_update(sid, 10), wire.build_data(sid, b'late'), wire.build_rst(sid, 0),
                                   wire.build_headers(sid, hm.encode([(b':status', b'200')]) if e_client else req)])
                t.call('receive_data', late)
        elif kind == 'settings':
            for _ in range(rng.choice([2, 5, 10])):
                d = {}
                for _ in range(rng.randrange(1, 7)):
                    d[rng.choice([1, 2, 3, 4, 5, 6, 8, 9, 0x20, 0x7f])] = rng.choice([0, 1, 100, 16384, 65535, 2 ** 20])
                if rng.random() < 0.5:
                    t.call('update_settings', d)
                    if rng.random() < 0.7:
                        t.call('receive_data', wire.build_settings(ack=True))
                else:
                    t.call('receive_data', wire.build_settings(list(d.items())))
        else:
            live = []
            for _ in range(rng.choice([10, 30, 60])):
                op = rng.choice(['send_headers', 'send_data', 'end_stream', 'reset_stream', 'ping', 'increment', 'prioritize',
                                 'update_settings', 'ack', 'push', 'altsvc', 'window', 'next', 'recv', 'close'])
                sid = rng.choice(live + [1, 2, 3, 99]) if live else rng.choice([1, 2, 3])
                if op == 'send_headers':
                    hs = retype(rng, rng.choice([gen.valid_headers(rng, 'request'), gen.valid_headers(rng, 'response'),
                                                 gen.hostile_headers(rng, 'request'), [(b'x-t', b'1')]]))
                    s2 = nsid if e_client and rng.random() < 0.6 else sid
                    r = t.call('send_headers', s2, hs, end_stream=rng.random() < 0.3)
                    if r.ok and s2 not in live:
                        live.append(s2)
                    if s2 == nsid:
                        nsid += 2
                elif op == 'send_data':
                    t.call('send_data', sid, b'z' * rng.choice([0, 1, 100, 70000]), end_stream=rng.random() < 0.2,
                           pad_length=rng.choice([None, None, 0, 10, 300]))
                elif op == 'end_stream':
                    t.call('end_stream', sid)
                elif op == 'reset_stream':
                    t.call('reset_stream', sid, rng.choice([0, 8]))
                elif op == 'ping':
                    t.call('ping', rng.choice([b'12345678', b'short']))
                elif op == 'increment':
                    t.call('increment_flow_control_window', rng.choice([1, 2 ** 31 - 1, 0]), rng.choice([None, sid]))
                elif op == 'prioritize':
                    t.call('prioritize', sid, weight=rng.choice([None, 1, 256, 300]), depends_on=rng.choice([None, 0, sid]),
                           exclusive=rng.choice([None, True]))
                elif op == 'update_settings':
                    t.call('update_settings', {rng.choice([1, 2, 3, 4, 5, 6]): rng.choice([0, 1, 2, 16384, 2 ** 31])})
                elif op == 'ack':
                    t.call('acknowledge_received_data', rng.choice([0, 10, -1]), sid)
                elif op == 'push':
                    t.call('push_stream', sid, rng.choice([2, 4, 6]), gen.valid_headers(rng, 'push'))
                elif op == 'altsvc':
                    t.call('advertise_alternative_service', b'h2=":1"', origin=rng.choice([None, b'o']), stream_id=rng.choice([None, sid]))
                elif op == 'window':
                    t.call('local_flow_control_window', sid)
                    t.call('remote_flow_control_window', sid)
                elif op == 'next':
                    t.call('get_next_available_stream_id')
                elif op == 'recv':
                    t.call('receive_data', pg.step())
                elif op == 'close' and rng.random() < 0.2:
                    t.call('close_connection', rng.choice([0, 1]), rng.choice([None, b'dbg']))
        progs.append({'idx': idx, 'client': e_client, 'cfg': cfg, 'kind': kind, 'ops': t.ops})
    return progs


class Tripwire(Exception):
    pass


def _trip(name):
    def f(*a, **k):
        raise Tripwire('non-determinism source consulted: ' + name)
    return f


def replay_programs(progs, reverse=False):
    """Re-execute every program; returns {idx: [digest per step]} and tripwire hits.  With reverse the programs run in the
    opposite order: what one connection does must not depend on which other connections the process served before it."""
    if reverse:
        progs = list(reversed(progs))
    from h2mon import core
    import random, uuid, socket
    saved = []
    audit = {'n': 0}

    def hook(event, args):
        if audit.get('on') and (event.startswith('socket.') or event in ('open', 'os.urandom', 'subprocess.Popen')):
            audit['n'] += 1
            audit.setdefault('events', set()).add(event)
    try:
        sys.addaudithook(hook)
    except Exception:       # noqa
        pass
    targets = [(time, 'time'), (time, 'monotonic'), (time, 'perf_counter'), (time, 'time_ns'), (random, 'random'),
               (random, 'randrange'), (random, 'randint'), (random, 'choice'), (random, 'getrandbits'), (os, 'urandom'),
               (uuid, 'uuid4'), (uuid, 'uuid1'), (socket, 'socket')]
    out = {}
    trips = []
    for p in progs:
        conn = _make_conn(p['client'], p['cfg'])
        digs = []
        for op, args, kw in p['ops']:
            a = _dec(args)
            k = _dec(kw) if kw else {}
            if isinstance(k, list):
                k = {}
            for mod, name in targets:
                saved.append((mod, name, getattr(mod, name)))
                setattr(mod, name, _trip('%s.%s' % (mod.__name__, name)))
            audit['on'] = True
            exc = None
            val = None
            try:
                val = getattr(conn, op)(*a, **k)
            except Tripwire as e:
                trips.append([p['idx'], str(e)])
                exc = e
            except Exception as e:      # noqa
                exc = e
            finally:
                audit['on'] = False
                while saved:
                    mod, name, fn = saved.pop()
                    setattr(mod, name, fn)
            outb = conn.data_to_send()
            hsh = hashlib.sha256()
            hsh.update(outb)
            if isinstance(val, list):
                hsh.update(repr(core.canon_events(val)).encode('utf-8', 'backslashreplace'))
            elif val is not None:
                hsh.update(repr(val).encode())
            if exc is not None:
                code = getattr(exc, 'error_code', None)
                hsh.update(('%s/%s' % (type(exc).__name__, None if code is None else int(code))).encode())
                # the text of the exception as well, with the elements of any set literal in it put in order (the library
                # formats sets of header names into some messages, and their order follows the hash seed)
                hsh.update(_SET_LITERAL.sub(lambda mo: '{' + ', '.join(sorted(mo.group(0)[1:-1].split(', '))) + '}', str(exc))
                           .encode('utf-8', 'backslashreplace'))
            digs.append(hsh.hexdigest()[:16])
        out[str(p['idx'])] = digs
    return out, trips, audit.get('n', 0), sorted(audit.get('events', []))


def child_main(argv):
    mode = argv[0]
    if mode == 'record':
        seed, start, count, path = int(argv[1]), int(argv[2]), int(argv[3]), argv[4]
        progs = record_programs(seed, start, count)
        with open(path, 'w') as f:
            json.dump(progs, f)
    else:
        path, outp = argv[1], argv[2]
        with open(path) as f:
            progs = json.load(f)
        rev = len(argv) > 3 and argv[3] == 'reverse'
        d1, trips, naudit, aevents = replay_programs(progs, reverse=rev)
        d2, _, _, _ = replay_programs(progs, reverse=not rev)        # second replay in the same process, other order
        with open(outp, 'w') as f:
            json.dump({'first': d1, 'second': d2, 'trips': trips, 'audit_events': naudit, 'audit_names': aevents}, f)


# ---------------------------------------------------------------------------
# parent side

def parent_main(seed, tier, jobs, cases):
    from h2mon import runner, core
    nprog = cases if cases is not None else (1600 if tier == 'quick' else 40000)
    batch = 20 if tier == 'quick' else 100
    hashseeds = ['0', '1', '2', '12345', str(1000 + seed % 100000)]
    if tier == 'thorough':
        hashseeds += ['7', '99991', '4294967295']
    m = {'cases': 0, 'counters': {}, 'violations': {}, 'distinct': set(), 'samples': [], 'harness_errors': [], 'sets': {},
         'fsm_stream': set(), 'fsm_conn': set(), 'failed': []}

    def cnt(k, n=1):
        m['counters'][k] = m['counters'].get(k, 0) + n

    def do_batch(b):
        start = b * batch
        count = min(batch, nprog - start)
        tmp = tempfile.mkdtemp(prefix='h2mon-c28-')
        res = {'viol': [], 'progs': 0, 'steps': 0, 'distinct': [], 'sample': None, 'failed': None, 'audit': 0, 'names': set()}
        try:
            pf = os.path.join(tmp, 'progs.json')
            p = subprocess.run([runner.PY, '-m', 'h2mon.checks.c28', 'record', str(seed), str(start), str(count), pf],
                               env=runner.child_env('0'), cwd=runner.HERE, timeout=1800, stderr=subprocess.PIPE)
            if p.returncode != 0:
                res['failed'] = 'record failed: ' + p.stderr.decode('utf-8', 'replace')[-1500:]
                return res
            outs = {}
            for hs in hashseeds:
                of = os.path.join(tmp, 'out-%s.json' % hs)
                order = 'reverse' if hashseeds.index(hs) % 2 else 'forward'
                p = subprocess.run([runner.PY, '-m', 'h2mon.checks.c28', 'replay', pf, of, order], env=runner.child_env(hs),
                                   cwd=runner.HERE, timeout=1800, stderr=subprocess.PIPE)
                if p.returncode != 0:
                    res['failed'] = 'replay (hashseed %s) failed: %s' % (hs, p.stderr.decode('utf-8', 'replace')[-1500:])
                    return res
                with open(of) as f:
                    outs[hs] = json.load(f)
            with open(pf) as f:
                progs = json.load(f)
            for pr in progs:
                key = str(pr['idx'])
                ref = outs[hashseeds[0]]['first'][key]
                res['progs'] += 1
                res['churn'] = res.get('churn', 0) + (pr['kind'] == 'churn')
                res['steps'] += len(ref)
                if len(ref) >= 5:
                    res['distinct'].append(core.h64(json.dumps(pr['ops'])))
                if res['sample'] is None and len(pr['ops']) > 5:
                    res['sample'] = {'idx': pr['idx'], 'kind': pr['kind'], 'role': 'client' if pr['client'] else 'server',
                                     'n_steps': len(pr['ops']), 'first_ops': [o[0] for o in pr['ops'][:12]]}
                for hs in hashseeds:
                    for which in ('first', 'second'):
                        got = outs[hs][which][key]
                        if got != ref:
                            k = next((i for i, (a, b2) in enumerate(zip(got, ref)) if a != b2), min(len(got), len(ref)))
                            op = pr['ops'][k][0] if k < len(pr['ops']) else '?'
                            res['viol'].append(('C28:transcript-differs:%s:%s' % ('across-hash-seeds' if which == 'first' else 'within-one-process', op),
                                                'program %d (%s): step %d (%s) differs between PYTHONHASHSEED=%s and %s' %
                                                (pr['idx'], pr['kind'], k, op, hashseeds[0], hs),
                                                {'case': pr['idx'], 'step': k, 'op': pr['ops'][k] if k < len(pr['ops']) else None,
                                                 'kind': pr['kind'], 'role': 'client' if pr['client'] else 'server', 'cfg': pr['cfg'],
                                                 'ops_before': [o[0] for o in pr['ops'][:k]][-10:]}))
                            break
                for hs in hashseeds:
                    for idx, what in outs[hs]['trips']:
                        res['viol'].append(('C28:nondeterminism-source-consulted', 'program %d: %s' % (idx, what), {'case': idx}))
                    res['audit'] += outs[hs].get('audit_events', 0)
                    res['names'].update(outs[hs].get('audit_names', []))
            return res
        except subprocess.TimeoutExpired:
            res['failed'] = 'timeout'
            return res
        finally:
            import shutil
            shutil.rmtree(tmp, ignore_errors=True)

    nb = (nprog + batch - 1) // batch
    with ThreadPoolExecutor(max_workers=max(1, min(jobs, nb))) as ex:
        results = list(ex.map(do_batch, range(nb)))
    for r in results:
        if r['failed']:
            m['failed'].append(r['failed'])
            continue
        m['cases'] += r['progs']
        cnt('programs_replayed', r['progs'])
        cnt('steps_compared', r['steps'] * len(hashseeds) * 2)
        cnt('programs_crossing_the_closed_stream_cap', r.get('churn', 0))
        cnt('interpreter_processes', len(hashseeds) + 1)
        cnt('audit_events_during_calls', r['audit'])
        m['sets'].setdefault('audit_event_names', set()).update(r['names'])
        m['distinct'].update(r['distinct'])
        if r['sample'] and len(m['samples']) < 3:
            m['samples'].append(r['sample'])
        for key, what, wit in r['viol']:
            v = m['violations'].get(key)
            if v is None:
                m['violations'][key] = {'key': key, 'what': what, 'case': wit.get('case'), 'witness': wit, 'count': 1}
            else:
                v['count'] += 1
    m['sets']['hash_seeds'] = set(hashseeds)
    return m


MINIMA = {'programs_replayed': 200, 'steps_compared': 20000, 'programs_crossing_the_closed_stream_cap': 30}


def n_cases(tier):
    return 1600 if tier == 'quick' else 40000


def run_case(idx, rng, tier, rep):
    """Replay of a single program (./check --replay): record it and replay under two hash seeds in-process is
    not meaningful, so the replay path re-runs the full comparison for just this program."""
    progs = record_programs(int(os.environ.get('VERIF_SEED', '0')), idx, 1)
    d1, trips, _, _ = replay_programs(progs)
    d2, _, _, _ = replay_programs(progs)
    rep.count('programs_replayed')
    if d1 != d2:
        rep.violation('C28:transcript-differs:within-one-process:?', 'two replays in one process differ', {'idx': idx})


if __name__ == '__main__':
    child_main(sys.argv[1:])
