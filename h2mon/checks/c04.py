"""C04 - inbound flow control is enforced exactly at the advertised windows.

Shadow advertised windows are computed only from E's wire (WINDOW_UPDATE frames
actually emitted, SETTINGS frames actually sent and the moment their ACK is
delivered) and from the DATA the scripted peer delivered.  The peer chooses DATA
sizes relative to the shadow (exact fit, fit-1, overrun by one, small), so both
sides of the boundary are hit in every history.
"""
import h2.exceptions

from .. import core, scen, wire
from ..scen import REQ, RESP, hb

LEVEL = 'exploration'
RULE = ('each case = 40-300 steps: peer DATA sized against the shadow windows (exact fit / fit-1 / overrun by 1 / small, '
        'padding 0..255), E increment_flow_control_window (valid, overflowing by one, on closed streams), '
        'acknowledge_received_data, update_settings(INITIAL_WINDOW_SIZE) with the ACK delivered 0..k steps later, streams '
        'opened before/after the ACK incl. reserved pushed streams; non-trivial = at least one fitting and the final '
        'overrun/last delivery judged; distinct = hash of step list')
MINIMA = {'window_queries_checked': 20000, 'data_fit_accepted': 5000, 'data_exact_fit_accepted': 300,
          'data_overrun_rejected': 300, 'raising_increment_checked': 300, 'raising_acknowledgement_checked': 300, 'iws_ack_applied': 300,
          'empty_data_on_exhausted_or_negative_window': 500, 'empty_data_on_negative_window': 100,
          'iws_changes_overlapping_in_flight': 300}
MAXW = 2 ** 31 - 1


def n_cases(tier):
    return 3000 if tier == 'quick' else 200000


class InShadow(object):
    """Advertised receive windows of E, from the wire only."""

    def __init__(self):
        self.conn = 65535
        self.iws_acked = 65535
        self.iws_pending = []          # IWS values of SETTINGS frames sent, not yet ACKed (None = frame without IWS)
        self.stream = {}               # sid -> advertised stream window
        self.stream_max = {}           # sid -> "maximum" for C05 (acknowledged IWS following changes)

    def created(self, sid):
        self.stream[sid] = self.iws_acked
        self.stream_max[sid] = self.iws_acked

    def emitted(self, frames):
        for f in frames:
            if f.type == wire.WINDOW_UPDATE and not f.defects:
                if f.stream_id == 0:
                    self.conn += f.increment
                elif f.stream_id in self.stream:
                    self.stream[f.stream_id] += f.increment
            elif f.type == wire.SETTINGS and not f.ack:
                v = None
                for k, val in f.settings:
                    if k == wire.S_INITIAL_WINDOW_SIZE:
                        v = val
                self.iws_pending.append(v)

    def ack_delivered(self):
        if not self.iws_pending:
            return 0
        v = self.iws_pending.pop(0)
        if v is None:
            return 0
        d = v - self.iws_acked
        self.iws_acked = v
        for s in self.stream:
            self.stream[s] += d
            self.stream_max[s] += d
        return d

    def window(self, sid):
        return min(self.conn, self.stream[sid])


class Driver(object):
    """Shared by C04 and C05: keeps the scenario, the shadow and the stream book-keeping."""

    def __init__(self, rng, e_client, rep, prop):
        self.rng = rng
        self.rep = rep
        self.prop = prop
        self.e_client = e_client
        self.sh = InShadow()
        self.h = scen.Hostile(e_client, keep_log=True, handshake=False)
        self.t = self.h.t
        self.steps = []
        self.alive = True
        self.accepts = []       # streams on which the peer may send DATA
        self.unacked = {}       # sid -> flow-controlled bytes received and not yet acknowledged by the app
        self.closed = []        # streams closed at E (reset by E / ended): DATA there only hits the connection window
        # handshake with accounting of the initial SETTINGS frame
        r = self.t.call('initiate_connection')
        self.sh.emitted(r.frames)
        pre = (b'' if e_client else wire.PREFACE) + wire.build_settings([])
        self.h.send(pre)
        self.h.send(wire.build_settings(ack=True))
        self.sh.ack_delivered()

    def fail(self, key, what):
        self.rep.violation(key, what, {'role': 'client' if self.e_client else 'server',
                                       'steps_tail': [str(s) for s in self.steps[-14:]], 'log_tail': self.t.tail_log(8),
                                       'shadow': {'conn': self.sh.conn, 'iws_acked': self.sh.iws_acked,
                                                  'pending': self.sh.iws_pending, 'streams': dict(self.sh.stream)}})
        self.alive = False

    def open_stream(self):
        h, t, sh, rng = self.h, self.t, self.sh, self.rng
        if self.e_client:
            parents = [s for s in self.accepts if s % 2 == 1]
            if parents and rng.random() < 0.35:
                par = rng.choice(parents)
                pid = h.peer_next
                r = h.send(wire.build_push_promise(par, pid, hb(REQ)))
                if not r.ok:
                    self.fail(self.prop + ':valid-push-rejected', 'PUSH_PROMISE raised %r' % r.exc)
                    return None
                h.peer_next += 2
                sh.created(pid)
                self.steps.append(('push', par, pid))
                self.reserved = getattr(self, 'reserved', [])
                self.reserved.append(pid)
                return pid
            sid, r = h.e_request(headers=REQ)
            if not r.ok:
                return None
            sh.emitted(r.frames)
            sh.created(sid)
            r = h.peer_headers(sid, RESP)
            if not r.ok:
                self.fail(self.prop + ':valid-response-rejected', 'response HEADERS raised %r' % r.exc)
                return None
            self.accepts.append(sid)
            self.unacked[sid] = 0
            self.steps.append(('open', sid))
            return sid
        sid, r = h.peer_request(headers=scen.REQ_POST)
        if not r.ok:
            self.fail(self.prop + ':valid-request-rejected', 'request HEADERS raised %r' % r.exc)
            return None
        sh.created(sid)
        self.accepts.append(sid)
        self.unacked[sid] = 0
        self.steps.append(('open', sid))
        return sid

    def activate_reserved(self):
        res = getattr(self, 'reserved', [])
        if not res:
            return
        pid = res.pop(0)
        r = self.h.peer_headers(pid, RESP)
        if not r.ok:
            self.fail(self.prop + ':valid-pushed-response-rejected', 'pushed response HEADERS raised %r' % r.exc)
            return
        self.accepts.append(pid)
        self.unacked[pid] = 0
        self.steps.append(('pushed-response', pid))

    def account_out(self, res):
        self.sh.emitted(res.frames)
        for f in res.frames:
            if f.type == wire.GOAWAY:
                self.alive = False

    def query_all(self):
        for sid in list(self.accepts) + list(getattr(self, 'reserved', [])):
            r = self.t.call('remote_flow_control_window', sid)
            if r.exc is not None:
                self.fail(self.prop + ':window-query-raises-' + type(r.exc).__name__,
                          'remote_flow_control_window(%d) raised %r' % (sid, r.exc))
                return
            self.rep.count('window_queries_checked')
            want = self.sh.window(sid)
            if r.value != want:
                which = 'stream' if self.sh.stream[sid] <= self.sh.conn else 'connection'
                self.fail(self.prop + ':remote_flow_control_window-differs-from-advertised:%s-binding' % which,
                          'remote_flow_control_window(%d) = %r, advertised min(conn %d, stream %d) = %d' %
                          (sid, r.value, self.sh.conn, self.sh.stream[sid], want))
                return
        v = getattr(self.t.c, 'inbound_flow_control_window', None)
        if v is not None and v != self.sh.conn:
            self.fail(self.prop + ':connection-inbound-window-differs-from-advertised',
                      'conn.inbound_flow_control_window = %r, advertised connection window = %d' % (v, self.sh.conn))

    def deliver_data(self, sid, size, pad, end_stream=False, closed_stream=False):
        """Deliver one DATA frame and judge the reaction against the shadow.  size = payload bytes (without padding)."""
        sh, rep = self.sh, self.rep
        fl = size + (0 if pad is None else pad + 1)
        # a frame without flow-controlled octets consumes nothing and may be sent whatever the windows are (RFC 7540 6.9.1),
        # including windows that an INITIAL_WINDOW_SIZE reduction has made negative (6.9.2)
        fits_conn = fl == 0 or fl <= sh.conn
        fits_stream = closed_stream or fl == 0 or fl <= sh.stream[sid]
        res = self.h.send(wire.build_data(sid, b'\x5a' * size, end_stream=end_stream, pad=pad))
        self.steps.append(('data', sid, size, pad, end_stream, 'closed' if closed_stream else '', fl, sh.conn,
                           None if closed_stream else sh.stream[sid]))
        self.account_out(res)
        if fits_conn and fits_stream:
            if res.exc is not None:
                if isinstance(res.exc, h2.exceptions.FlowControlError) or getattr(res.exc, 'error_code', None) == wire.FLOW_CONTROL_ERROR:
                    self.fail(self.prop + ':fitting-data-rejected-for-flow-control',
                              'DATA of flow length %d rejected (%s) with advertised windows conn %d stream %s' %
                              (fl, core.exc_key(res.exc), sh.conn, None if closed_stream else sh.stream[sid]))
                else:
                    self.fail(self.prop + ':fitting-data-rejected:' + core.exc_key(res.exc), 'valid DATA raised %r' % res.exc)
                return False
            sh.conn -= fl
            if not closed_stream:
                sh.stream[sid] -= fl
                self.unacked[sid] = self.unacked.get(sid, 0) + fl
                if fl == min(sh.conn + fl, sh.stream[sid] + fl):
                    rep.count('data_exact_fit_accepted')
                if pad is not None:
                    rep.count('padded_data_accepted')
            else:
                rep.count('data_on_closed_stream_accounted')
            rep.count('data_fit_accepted')
            if end_stream and sid in self.accepts:
                self.accepts.remove(sid)
            return True
        # overrun expected
        self.alive = False
        if res.exc is None:
            which = 'connection' if not fits_conn else 'stream'
            self.fail(self.prop + ':overrunning-data-accepted:%s-window' % which,
                      'DATA of flow length %d accepted although advertised windows are conn %d stream %s' %
                      (fl, sh.conn, None if closed_stream else sh.stream[sid]))
            return False
        code = getattr(res.exc, 'error_code', None)
        ok_codes = {wire.FLOW_CONTROL_ERROR}
        if closed_stream:
            ok_codes.add(wire.STREAM_CLOSED)
        if not isinstance(res.exc, h2.exceptions.ProtocolError) or code not in ok_codes:
            self.fail(self.prop + ':overrun-wrong-error:' + core.exc_key(res.exc),
                      'overrunning DATA raised %r (code %r), expected FlowControlError/FLOW_CONTROL_ERROR' % (res.exc, code))
            return False
        g = [f for f in res.frames if f.type == wire.GOAWAY]
        if len(g) != 1 or g[0].error_code not in ok_codes:
            self.fail(self.prop + ':overrun-goaway-wrong', 'overrun GOAWAY frames: %s' % [f.brief() for f in g])
            return False
        rep.count('data_overrun_rejected')
        return False


def pick_size(rng, w, mfs=16384):
    """Payload+padding choice against window w (the binding one).  Returns (size, pad, kind)."""
    pad = rng.choice([None, None, None, 0, 1, 7, 255])
    over = 0 if pad is None else pad + 1
    kind = rng.choice(['small', 'small', 'exact', 'fit-1', 'over', 'big'])
    if kind == 'exact':
        tot = w
    elif kind == 'fit-1':
        tot = w - 1
    elif kind == 'over':
        tot = w + 1
    elif kind == 'big':
        tot = min(w, mfs)
    else:
        tot = rng.choice([1, 2, 10, 100, 1000])
    tot = min(tot, mfs)
    if tot < over or tot <= 0:
        return None
    return tot - over, pad, kind


def run_case(idx, rng, tier, rep):
    e_client = rng.random() < 0.5
    d = Driver(rng, e_client, rep, 'C04')
    sh, t, h = d.sh, d.t, d.h
    for _ in range(rng.choice([1, 1, 2, 3])):
        d.open_stream()
    pending_ack = 0
    nsteps = rng.choice([40, 120, 300])
    for step in range(nsteps):
        if not d.alive:
            break
        r = rng.random()
        if r < 0.06 and len(sh.stream) < 10:
            d.open_stream()
        elif r < 0.10:
            d.activate_reserved()
        elif r < 0.50 and d.accepts:
            sid = rng.choice(d.accepts)
            w = sh.window(sid)
            if w <= 0 or rng.random() < 0.04:
                # nothing with octets fits: an empty DATA frame (often the one carrying END_STREAM) still has to be accepted
                if rng.random() < 0.5:
                    rep.count('empty_data_on_exhausted_or_negative_window' if w <= 0 else 'empty_data_on_positive_window')
                    if w < 0:
                        rep.count('empty_data_on_negative_window')
                    d.deliver_data(sid, 0, None, end_stream=rng.random() < 0.5)
                continue
            p = pick_size(rng, w)
            if p is None:
                continue
            size, pad, kind = p
            d.deliver_data(sid, size, pad, end_stream=rng.random() < 0.04)
        elif r < 0.54 and d.closed:
            # DATA racing a local reset: counts against the connection window only
            sid = rng.choice(d.closed)
            p = pick_size(rng, sh.conn)
            if p is None or p[2] == 'over':
                continue
            d.deliver_data(sid, p[0], p[1], closed_stream=True)
        elif r < 0.66:
            # increment_flow_control_window
            target = rng.choice(['conn', 'stream', 'stream'])
            if target == 'stream' and not d.accepts:
                continue
            sid = None if target == 'conn' else rng.choice(d.accepts)
            cur = sh.conn if sid is None else sh.stream[sid]
            inc = rng.choice([1, 100, 65535, MAXW - cur, MAXW - cur + 1, MAXW])
            if not 1 <= inc <= MAXW:
                continue
            before = snapshot(d)
            res = t.call('increment_flow_control_window', inc, sid) if sid is not None else \
                t.call('increment_flow_control_window', inc)
            d.steps.append(('increment', sid, inc, cur))
            if cur + inc > MAXW:
                if res.exc is None:
                    d.fail('C04:overflowing-increment-accepted', 'increment_flow_control_window(%d) accepted with window %d' % (inc, cur))
                    continue
                if res.frames:
                    d.fail('C04:raising-increment-emitted', 'raising increment emitted %s' % [f.brief() for f in res.frames])
                    continue
                rep.count('raising_increment_checked')
                after = snapshot(d)
                if after != before:
                    diff = [k for k in before if before[k] != after.get(k)]
                    d.fail('C04:raising-increment-changed-window:%s' % ('connection' if sid is None else 'stream'),
                           'increment_flow_control_window(%d, %s) raised %s but changed %s: %s -> %s' %
                           (inc, sid, type(res.exc).__name__, diff, [before[k] for k in diff], [after.get(k) for k in diff]))
                    continue
            else:
                if res.exc is not None:
                    d.fail('C04:valid-increment-refused:' + core.exc_key(res.exc),
                           'increment_flow_control_window(%d, %s) with window %d raised %r' % (inc, sid, cur, res.exc))
                    continue
                wu = [f for f in res.frames if f.type == wire.WINDOW_UPDATE]
                if len(res.frames) != 1 or len(wu) != 1 or wu[0].increment != inc or wu[0].stream_id != (sid or 0):
                    d.fail('C04:increment-emission-wrong', 'increment emitted %s' % [f.brief() for f in res.frames])
                    continue
                d.account_out(res)
                rep.count('valid_increment_checked')
        elif r < 0.70 and rng.random() < 0.5:
            # an acknowledgement that is refused (never-used stream id, stream 0, negative size) changes no window and
            # emits nothing, however much it claims to acknowledge
            hi = max([0] + list(getattr(t.c, 'streams', {})) + [getattr(t.c, 'highest_inbound_stream_id', 0),
                                                                getattr(t.c, 'highest_outbound_stream_id', 0)])
            total = sum(d.unacked.values())
            sid, k = rng.choice([(hi + 2, None), (hi + 3, None), (hi + 21, None), (0, None), (-1, None), (None, -1)])
            if k is None:
                k = rng.choice([1, 1024, max(1, total), 40000, 65535])
            if sid is None:
                sid = rng.choice(d.accepts) if d.accepts else hi + 2
            before = snapshot(d)
            res = t.call('acknowledge_received_data', k, sid)
            d.steps.append(('refused-ack', sid, k))
            if res.exc is None:
                d.fail('C04:acknowledgement-for-unusable-stream-accepted', 'acknowledge_received_data(%d, %d) returned normally' % (k, sid))
                continue
            rep.count('raising_acknowledgement_checked')
            after = snapshot(d)
            if res.frames or after != before:
                diff = [x for x in before if before[x] != after.get(x)]
                d.fail('C04:raising-acknowledgement-changed-window' if after != before else 'C04:raising-acknowledgement-emitted',
                       'acknowledge_received_data(%d, %d) raised %s but changed %s: %s -> %s, emitted %s' %
                       (k, sid, type(res.exc).__name__, diff, [before[x] for x in diff], [after.get(x) for x in diff],
                        [f.brief() for f in res.frames]))
                continue
        elif r < 0.78 and any(d.unacked.values()):
            sid = rng.choice([s for s, n in d.unacked.items() if n])
            n = d.unacked[sid]
            k = rng.choice([n, n, max(1, n // 2), 1, min(n, 1024), min(n, 1025)])
            res = t.call('acknowledge_received_data', k, sid)
            d.steps.append(('ack', sid, k))
            if res.exc is not None:
                d.fail('C04:acknowledge-raises:' + core.exc_key(res.exc), 'acknowledge_received_data(%d,%d) raised %r' % (k, sid, res.exc))
                continue
            d.unacked[sid] -= k
            d.account_out(res)
            rep.count('acks_done')
        elif r < 0.86:
            # up to three INITIAL_WINDOW_SIZE changes may be in flight: each ACK applies exactly the oldest one
            if len(sh.iws_pending) >= 3:
                continue
            if sh.iws_pending:
                rep.count('iws_changes_overlapping_in_flight')
            cands = [0, 1, 100, 1000, 16384, 65535, 65536, 2 ** 20, MAXW]
            v = rng.choice(cands)
            if any(wv + (v - sh.iws_acked) > MAXW for wv in sh.stream.values()):
                continue          # local misuse (existing window would exceed 2^31-1): undetermined, not generated
            res = t.call('update_settings', {wire.S_INITIAL_WINDOW_SIZE: v})
            d.steps.append(('update_settings', v))
            if res.exc is not None:
                d.fail('C04:valid-update-settings-refused', 'update_settings(IWS=%d) raised %r' % (v, res.exc))
                continue
            d.account_out(res)
            pending_ack = rng.choice([0, 0, 1, 3, 8])
        elif r < 0.92 and sh.iws_pending:
            if pending_ack > 0:
                pending_ack -= 1
                continue
            nxt = sh.iws_pending[0]
            if nxt is not None and any(wv + (nxt - sh.iws_acked) > MAXW for wv in sh.stream.values()):
                # the acknowledged increase would push an existing window past 2^31-1: local misuse, undetermined
                rep.count('undetermined_iws_ack_overflow')
                d.alive = False
                continue
            res = h.send(wire.build_settings(ack=True))
            dlt = sh.ack_delivered()
            d.steps.append(('settings-ack', dlt))
            if res.exc is not None:
                d.fail('C04:settings-ack-rejected', 'SETTINGS ACK raised %r' % res.exc)
                continue
            d.account_out(res)
            rep.count('iws_ack_applied')
        elif r < 0.96 and d.accepts:
            sid = rng.choice(d.accepts)
            res = t.call('reset_stream', sid)
            d.steps.append(('reset', sid))
            if res.ok:
                d.accepts.remove(sid)
                d.unacked.pop(sid, None)
                d.closed.append(sid)
        else:
            continue
        if d.alive:
            d.query_all()
    if rep.counters.get('data_fit_accepted'):
        rep.nontrivial((e_client, tuple(str(s) for s in d.steps)))
    if idx % 293 == 0:
        rep.sample({'role': 'client' if e_client else 'server', 'steps': [str(s) for s in d.steps[:25]], 'n_steps': len(d.steps)})


def snapshot(d):
    """Read-only view of every inbound window (public queries + the public connection property)."""
    snap = {'conn': getattr(d.t.c, 'inbound_flow_control_window', None)}
    for sid in d.accepts:
        try:
            snap['q%d' % sid] = d.t.c.remote_flow_control_window(sid)
        except Exception as e:      # noqa
            snap['q%d' % sid] = type(e).__name__
        st = getattr(d.t.c, 'streams', {}).get(sid)
        snap['s%d' % sid] = getattr(st, 'inbound_flow_control_window', None)
    return snap
