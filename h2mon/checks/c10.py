"""C10 - concurrent-stream limits are respected and enforced.

One real endpoint E (either role) against a scripted peer.  A shadow RFC 7540
section 5.1 / 5.1.2 model is driven only by what the peer delivered and what E
accepted or emitted: per stream its initiator and state (reserved, open,
half-closed either way, closed); streams in open / half-closed states count
against the limit of their initiator's peer, reserved streams do not.

Judged:
 * every E call that would open a stream (client: send_headers on a new id;
   server: first response HEADERS on a stream it promised) succeeds exactly when
   the shadow outbound count is below the peer's MAX_CONCURRENT_STREAMS as last
   delivered, and otherwise raises TooManyStreamsError and emits nothing;
 * every peer frame that opens a stream (client peer: HEADERS on a new id;
   server peer: response HEADERS on a stream it promised) is accepted when the
   shadow inbound count is below E's acknowledged limit and refused (connection
   error or RST_STREAM) when it is not;
 * open_outbound_streams / open_inbound_streams equal the shadow counts (read
   after every step in half of the histories, only at the end in the others).
"""
import h2.exceptions

from .. import core, scen, wire
from ..scen import REQ, RESP, hb

LEVEL = 'exploration'
RULE = ('random histories of stream openings, END_STREAM in both directions, resets by either side, pushes and their '
        'activation, and MAX_CONCURRENT_STREAMS changes on both sides (values 0,1,2,3,5,100, up to three local changes '
        'in flight, each ACK delivered at an arbitrary later step), for both roles; non-trivial = at least one opening judged at the limit '
        '(count == limit or count == limit - 1); distinct = hash of the step list')
MINIMA = {'local_opening_judged': 3000, 'local_opening_at_limit_refused': 300, 'local_opening_just_below_limit_accepted': 300,
          'peer_opening_judged': 3000, 'peer_opening_over_limit_judged': 150, 'peer_opening_just_below_limit_accepted': 300,
          'counters_compared': 20000, 'reserved_streams_present_at_judgement': 300,
          'local_limit_changes_overlapping': 300, 'library_initiated_resets': 200, 'garbage_opening_attempts': 300, 'stale_id_openings_judged': 50, 'refused_activation_attempts': 100}
EXHAUSTIVE = {}

LIMITS = [0, 1, 1, 2, 2, 3, 5, 100]
UNLIMITED = 2 ** 32 + 1
COUNTED = ('open', 'hc_local', 'hc_remote')


def n_cases(tier):
    return 4000 if tier == 'quick' else 200000


class Shadow(object):
    def __init__(self):
        self.st = {}          # sid -> [initiator 'E'|'P', state, e_sent_final_headers, p_sent_final_headers]

    def count(self, who):
        return sum(1 for v in self.st.values() if v[0] == who and v[1] in COUNTED)

    def reserved(self):
        return sum(1 for v in self.st.values() if v[1] == 'reserved')

    def ids(self, pred):
        return [sid for sid, v in sorted(self.st.items()) if pred(v)]

    def e_end(self, sid):
        v = self.st[sid]
        v[1] = {'open': 'hc_local', 'hc_remote': 'closed'}[v[1]]

    def p_end(self, sid):
        v = self.st[sid]
        v[1] = {'open': 'hc_remote', 'hc_local': 'closed'}[v[1]]


def run_case(idx, rng, tier, rep):
    e_client = rng.random() < 0.5
    peer_limit0 = rng.choice([None, None] + LIMITS)
    e_limit0 = rng.choice([None, None] + LIMITS)
    peer_settings = [] if peer_limit0 is None else [(wire.S_MAX_CONCURRENT_STREAMS, peer_limit0)]
    e_settings = None if e_limit0 is None else {wire.S_MAX_CONCURRENT_STREAMS: e_limit0}
    h = scen.Hostile(e_client, peer_settings=peer_settings, e_settings=e_settings, keep_log=True)
    t = h.t
    sh = Shadow()
    steps = []
    at_limit = [False]
    st = {'alive': True, 'peer_limit': UNLIMITED if peer_limit0 is None else peer_limit0,
          'e_limit': 100 if e_limit0 is None else e_limit0, 'e_pending': []}
    poll = rng.random() < 0.5
    stale = []

    def fail(key, what, stop=True):
        rep.violation(key, what, {'role': 'client' if e_client else 'server', 'steps': [str(x) for x in steps[-16:]],
                                  'shadow': {str(k): v[:2] for k, v in sorted(sh.st.items()) if v[1] != 'closed'},
                                  'peer_limit': st['peer_limit'], 'e_limit_acknowledged': st['e_limit'],
                                  'log_tail': t.tail_log(5)})
        if stop:
            st['alive'] = False

    def unexpected(r, what):
        fail('C10:valid-step-refused:%s:%s' % (what, core.exc_key(r.exc)), '%s raised %r' % (what, r.exc))

    def compare(force=False):
        if not st['alive'] or not (poll or force):
            return
        for attr, who in (('open_outbound_streams', 'E'), ('open_inbound_streams', 'P')):
            got = getattr(t.c, attr)
            want = sh.count(who)
            rep.count('counters_compared')
            if got != want:
                fail('C10:%s-differs-from-model' % attr, '%s = %d, model counts %d streams opened by %s in open/half-closed states' %
                     (attr, got, want, 'the endpoint' if who == 'E' else 'the peer'))
                return

    def judge_local_opening(r, what, sid, emitted_ok):
        """E tried to move one of its own streams into a counted state."""
        n, lim = sh.count('E'), st['peer_limit']
        rep.count('local_opening_judged')
        if sh.reserved():
            rep.count('reserved_streams_present_at_judgement')
        if n >= lim:
            at_limit[0] = True
            if r.exc is None:
                # the history goes on with the stream counted, as E did count it (a reported violation either way)
                fail('C10:opening-allowed-above-peer-limit:%s' % what,
                     '%s on stream %d succeeded with %d streams already open/half-closed outbound and peer MAX_CONCURRENT_STREAMS %d' %
                     (what, sid, n, lim), stop=False)
                return True
            if not isinstance(r.exc, h2.exceptions.TooManyStreamsError):
                fail('C10:over-limit-opening-wrong-exception:%s:%s' % (what, core.exc_key(r.exc)),
                     '%s above the limit raised %r, expected TooManyStreamsError' % (what, r.exc))
                return False
            if r.frames:
                fail('C10:refused-opening-emitted-frames:%s' % what, 'refused %s emitted %s' % (what, [f.name for f in r.frames]))
                return False
            rep.count('local_opening_at_limit_refused')
            return False
        if r.exc is not None:
            if isinstance(r.exc, h2.exceptions.TooManyStreamsError):
                fail('C10:opening-refused-below-peer-limit:%s' % what,
                     '%s on stream %d raised TooManyStreamsError with %d streams open/half-closed outbound and peer MAX_CONCURRENT_STREAMS %d' %
                     (what, sid, n, lim))
            else:
                unexpected(r, what)
            return False
        if n == lim - 1:
            at_limit[0] = True
            rep.count('local_opening_just_below_limit_accepted')
        if not emitted_ok(r.frames):
            fail('C10:opening-emitted-unexpected-frames:%s' % what, '%s emitted %s' % (what, [f.brief() for f in r.frames]))
            return False
        return True

    def judge_peer_opening(res, what, sid):
        """The peer moved one of its streams into a counted state.  Returns True when E accepted it."""
        n, lim = sh.count('P'), st['e_limit']
        rep.count('peer_opening_judged')
        if sh.reserved():
            rep.count('reserved_streams_present_at_judgement')
        refused_stream = any(f.type == wire.RST_STREAM and f.stream_id == sid for f in res.frames)
        if n >= lim:
            at_limit[0] = True
            rep.count('peer_opening_over_limit_judged')
            if res.exc is None and not refused_stream:
                fail('C10:peer-opening-accepted-above-local-limit:%s' % what,
                     '%s on stream %d accepted with %d streams already open/half-closed inbound and acknowledged MAX_CONCURRENT_STREAMS %d' %
                     (what, sid, n, lim), stop=False)
                return True
            if res.exc is not None:
                if not isinstance(res.exc, h2.exceptions.ProtocolError):
                    fail('C10:peer-over-limit-wrong-exception:%s' % core.exc_key(res.exc), repr(res.exc))
                st['alive'] = False          # connection error: the history ends here
                return False
            sh.st[sid] = ['P', 'closed', False, False]
            return False
        if res.exc is not None or refused_stream:
            fail('C10:peer-opening-refused-below-local-limit:%s:%s' % (what, core.exc_key(res.exc) if res.exc else 'RST_STREAM'),
                 '%s on stream %d refused with %d streams open/half-closed inbound and acknowledged MAX_CONCURRENT_STREAMS %d' %
                 (what, sid, n, lim))
            return False
        if n == lim - 1:
            at_limit[0] = True
            rep.count('peer_opening_just_below_limit_accepted')
        return True

    def send_valid(data, what):
        res = h.send(data)
        if res.exc is not None:
            unexpected(res, what)
            return None
        return res

    nsteps = rng.randrange(10, 60)
    for _ in range(nsteps):
        if not st['alive']:
            break
        ops = ['open', 'open', 'open', 'end_e', 'end_p', 'rst_e', 'rst_p', 'respond', 'peer_mcs', 'e_mcs', 'ack', 'push', 'activate', 'activate',
               'wu_overflow']
        op = rng.choice(ops)
        if op == 'wu_overflow':
            # the peer overflows a stream's send window: E resets that stream on its own (stream error FLOW_CONTROL_ERROR), which
            # closes it just like reset_stream would - it must stop counting
            c = sh.ids(lambda v: v[1] in ('open', 'hc_remote'))
            if not c or rng.random() < 0.5:
                continue
            sid = rng.choice(c)
            steps.append(('P-window-update-overflow', sid))
            res = h.send(wire.build_window_update(sid, 2 ** 31 - 1))
            if res.exc is not None:
                st['alive'] = False       # a connection error is an acceptable reading of RFC 7540 6.9.1 too: the history ends
                continue
            if any(f.type == wire.RST_STREAM and f.stream_id == sid for f in res.frames):
                sh.st[sid][1] = 'closed'
                rep.count('library_initiated_resets')
            compare()
            continue
        if op == 'open':
            es = rng.random() < 0.3
            if e_client:
                sid = h.e_next
                h.e_next += 2
                if rng.random() < 0.08:
                    # a mistaken first attempt (a header value that is not a string): whatever it raises, it sent nothing, so it
                    # opened nothing.  Half of the time the same id is used for the real attempt below, otherwise the id is left
                    # behind and tried again later, when it is too low (and the limit may be reached).
                    steps.append(('E-open-garbage', sid))
                    r0 = t.call('send_headers', sid, REQ + [(b'x-broken', None)])
                    rep.count('garbage_opening_attempts')
                    if r0.exc is None:
                        unexpected(r0, 'send_headers-with-None-value-accepted')
                        break
                    if r0.frames:
                        fail('C10:refused-opening-emitted-frames:garbage', str([f.brief() for f in r0.frames]))
                        break
                    if rng.random() < 0.5:
                        stale.append(sid)
                        sid = h.e_next
                        h.e_next += 2
                elif stale and rng.random() < 0.3 and stale[0] < max([i for i, v in sh.st.items() if v[0] == 'E'] or [0]):
                    # an id left behind by a failed attempt, now below the highest used id: it can never be opened any more
                    old = stale.pop(0)
                    h.e_next -= 2
                    steps.append(('E-open-stale-id', old))
                    r0 = t.call('send_headers', old, REQ)
                    rep.count('stale_id_openings_judged')
                    if r0.exc is None:
                        fail('C10:stale-id-opened-without-checks', 'send_headers(%d) succeeded after streams up to %d were opened; %d streams '
                             'open/half-closed outbound, peer MAX_CONCURRENT_STREAMS %d' %
                             (old, max(i for i, v in sh.st.items() if v[0] == 'E'), sh.count('E'), st['peer_limit']))
                        break
                    if r0.frames:
                        fail('C10:refused-opening-emitted-frames:stale-id', str([f.brief() for f in r0.frames]))
                        break
                    continue
                steps.append(('E-open', sid, es))
                r = t.call('send_headers', sid, REQ, end_stream=es)
                if judge_local_opening(r, 'send_headers-new-stream', sid,
                                       lambda fr: len(fr) == 1 and fr[0].type == wire.HEADERS and fr[0].stream_id == sid):
                    sh.st[sid] = ['E', 'hc_local' if es else 'open', True, False]
                elif st['alive']:
                    h.e_next -= 2         # the id was not used
            else:
                sid = h.peer_next
                h.peer_next += 2
                steps.append(('P-open', sid, es))
                res = h.send(wire.build_headers(sid, hb(REQ), end_stream=es))
                if judge_peer_opening(res, 'HEADERS-new-stream', sid):
                    sh.st[sid] = ['P', 'hc_remote' if es else 'open', False, True]
        elif op == 'respond':
            # final response headers on a client-initiated stream, from whoever is the server
            if e_client:
                c = sh.ids(lambda v: v[0] == 'E' and v[1] in ('open', 'hc_local') and not v[3])
                if not c:
                    continue
                sid = rng.choice(c)
                es = rng.random() < 0.4
                steps.append(('P-respond', sid, es))
                if send_valid(wire.build_headers(sid, hb(RESP), end_stream=es), 'response-HEADERS') is None:
                    break
                sh.st[sid][3] = True
                if es:
                    sh.p_end(sid)
            else:
                c = sh.ids(lambda v: v[0] == 'P' and v[1] in ('open', 'hc_remote') and not v[2])
                if not c:
                    continue
                sid = rng.choice(c)
                es = rng.random() < 0.4
                steps.append(('E-respond', sid, es))
                r = t.call('send_headers', sid, RESP, end_stream=es)
                if r.exc is not None:
                    unexpected(r, 'send_headers-response')
                    break
                sh.st[sid][2] = True
                if es:
                    sh.e_end(sid)
        elif op == 'end_e':
            c = sh.ids(lambda v: v[1] in ('open', 'hc_remote') and v[2])
            if not c:
                continue
            sid = rng.choice(c)
            steps.append(('E-end', sid))
            how = rng.randrange(4)
            if how == 0:
                r = t.call('end_stream', sid)
            elif how == 1:
                r = t.call('send_data', sid, b'e', end_stream=True)
            else:
                r = t.call('send_data', sid, rng.choice([b'', b'e', b'end']), end_stream=True, pad_length=rng.choice([0, 0, 7, 255]))
            if r.exc is not None:
                unexpected(r, 'end_stream')
                break
            # the count follows what went on the wire: the peer counts the stream as half-closed only if it was told so
            rep.count('stream_endings_checked_on_the_wire')
            if not any(f.stream_id == sid and f.type in (wire.DATA, wire.HEADERS) and f.end_stream for f in r.frames):
                fail('C10:stream-counted-as-ended-but-END_STREAM-not-sent',
                     'the call ending stream %d succeeded and emitted %s: no END_STREAM among them' % (sid, [f.brief() for f in r.frames]))
                break
            sh.e_end(sid)
        elif op == 'end_p':
            c = sh.ids(lambda v: v[1] in ('open', 'hc_local') and v[3])
            if not c:
                continue
            sid = rng.choice(c)
            steps.append(('P-end', sid))
            if send_valid(wire.build_data(sid, b'p' if rng.random() < 0.5 else b'', end_stream=True), 'DATA-END_STREAM') is None:
                break
            sh.p_end(sid)
        elif op == 'rst_e':
            c = sh.ids(lambda v: v[1] != 'closed')
            if not c:
                continue
            sid = rng.choice(c)
            steps.append(('E-rst', sid, sh.st[sid][1]))
            r = t.call('reset_stream', sid, rng.choice([0, 7, 8]))
            if r.exc is not None:
                unexpected(r, 'reset_stream')
                break
            sh.st[sid][1] = 'closed'
        elif op == 'rst_p':
            c = sh.ids(lambda v: v[1] != 'closed')
            if not c:
                continue
            sid = rng.choice(c)
            steps.append(('P-rst', sid, sh.st[sid][1]))
            if send_valid(wire.build_rst(sid, rng.choice([0, 7, 8])), 'RST_STREAM') is None:
                break
            sh.st[sid][1] = 'closed'
        elif op == 'peer_mcs':
            v = rng.choice(LIMITS)
            steps.append(('P-settings-mcs', v))
            res = send_valid(wire.build_settings([(wire.S_MAX_CONCURRENT_STREAMS, v)]), 'SETTINGS')
            if res is None:
                break
            st['peer_limit'] = v
        elif op == 'e_mcs':
            if len(st['e_pending']) >= 3:
                continue
            # several changes may be in flight: every SETTINGS frame here carries only this setting, so the
            # k-th ACK applies the k-th value (RFC 7540 section 6.5.3)
            v = rng.choice(LIMITS + ([st['e_limit']] * 3))
            steps.append(('E-settings-mcs', v))
            r = t.call('update_settings', {wire.S_MAX_CONCURRENT_STREAMS: v})
            if r.exc is not None:
                unexpected(r, 'update_settings')
                break
            st['e_pending'].append(v)
            if len(st['e_pending']) > 1:
                rep.count('local_limit_changes_overlapping')
        elif op == 'ack':
            if not st['e_pending']:
                continue
            steps.append(('P-settings-ack', st['e_pending'][0]))
            if send_valid(wire.build_settings(ack=True), 'SETTINGS-ACK') is None:
                break
            st['e_limit'] = st['e_pending'].pop(0)
        elif op == 'push':
            # the server promises a stream on a client-initiated stream on which it can still send
            if e_client:
                c = sh.ids(lambda v: v[0] == 'E' and v[1] in ('open', 'hc_local'))
                if not c:
                    continue
                par = rng.choice(c)
                p = h.peer_next
                h.peer_next += 2
                steps.append(('P-push', par, p))
                res = send_valid(wire.build_push_promise(par, p, hb(REQ)), 'PUSH_PROMISE')
                if res is None:
                    break
                sh.st[p] = ['P', 'reserved', False, False]
            else:
                c = sh.ids(lambda v: v[0] == 'P' and v[1] in ('open', 'hc_remote'))
                if not c:
                    continue
                par = rng.choice(c)
                p = h.e_next
                h.e_next += 2
                steps.append(('E-push', par, p))
                r = t.call('push_stream', par, p, REQ)
                if r.exc is not None:
                    unexpected(r, 'push_stream')
                    break
                sh.st[p] = ['E', 'reserved', False, False]
        elif op == 'activate':
            c = sh.ids(lambda v: v[1] == 'reserved')
            if not c:
                continue
            sid = rng.choice(c)
            es = rng.random() < 0.3
            if e_client:
                steps.append(('P-activate', sid, es))
                res = h.send(wire.build_headers(sid, hb(RESP), end_stream=es))
                if judge_peer_opening(res, 'HEADERS-on-promised-stream', sid):
                    sh.st[sid] = ['P', 'closed' if es else 'hc_local', False, True]
            else:
                if rng.random() < 0.15:
                    # a response the library refuses for its header list: nothing is sent, the stream stays reserved and uncounted
                    steps.append(('E-activate-refused', sid))
                    r0 = t.call('send_headers', sid, RESP + [(b'te', b'gzip')], end_stream=es)
                    rep.count('refused_activation_attempts')
                    if r0.exc is None or r0.frames:
                        fail('C10:invalid-response-accepted-or-emitted', 'send_headers with te: gzip: exc %r frames %s' % (r0.exc, [f.brief() for f in r0.frames]))
                        break
                    compare(force=True)
                    if not st['alive']:
                        break
                steps.append(('E-activate', sid, es))
                r = t.call('send_headers', sid, RESP, end_stream=es)
                if judge_local_opening(r, 'send_headers-on-promised-stream', sid,
                                       lambda fr: len(fr) == 1 and fr[0].type == wire.HEADERS and fr[0].stream_id == sid):
                    sh.st[sid] = ['E', 'closed' if es else 'hc_remote', True, False]
        compare()
    compare(force=True)
    if st['alive'] or at_limit[0]:
        if at_limit[0]:
            rep.nontrivial(tuple(str(x) for x in steps))
    if idx % 997 == 0:
        rep.sample({'role': 'client' if e_client else 'server', 'steps': [str(x) for x in steps[:25]]})
