"""C26 - each received PING is answered exactly once with the same payload.

Trace oracle: the sequence of PING-ACK payloads on E's wire must equal the
sequence of non-ACK PING payloads delivered so far (FIFO, exactly once), the
PingReceived / PingAckReceived events must mirror the delivered frames, a PING
ACK is never answered, and ping() emits exactly one PING or raises ValueError
emitting nothing.
"""
import copy
import struct

import h2.exceptions

from .. import core, gen, wire

LEVEL = 'exploration'
RULE = ('each case = one endpoint fed 1..200 PING / PING-ACK frames (unique counter payloads plus all-zero / all-0xff) '
        'interleaved with valid peer traffic and local ping() calls, delivered in random chunkings (many frames per '
        'call, frames split across calls), some bursts ending in a frame that is a connection error (PINGs in front of it in the same '
        'call must still be answered: compared with a copy of the endpoint fed frame by frame); non-trivial = at least one PING answered and compared; distinct = hash of '
        'delivered bytes')
MINIMA = {'pings_matched': 2000, 'ping_acks_delivered': 300, 'local_ping_ok': 200, 'local_ping_refused': 200, 'local_ping_payload_repeated': 300, 'local_ping_non_bytes_refused': 100,
          'multi_ping_calls': 200, 'cases_reading_output_in_pieces': 3000, 'rounds_with_a_full_window_of_unsent_output': 300, 'raising_calls_with_pings_compared': 1000, 'pure_ping_cases': 500, 'pure_ping_cases_idle_connection': 100}


def n_cases(tier):
    return 20000 if tier == "quick" else 1500000


def run_case(idx, rng, tier, rep):
    e_client = rng.random() < 0.5
    t = core.Tap(core.make_conn(e_client), keep_log=True)
    t.call('initiate_connection')
    if rng.random() < 0.5:
        import random
        t.read_rng = random.Random(rng.random())       # the application reads its output in two pieces now and then
        rep.count('cases_reading_output_in_pieces')
    pg = gen.PeerGen(rng, e_client, hostile=0.0, hdr_hostile=0.0)
    inp = wire.StreamParser(expect_preface=not e_client)
    counter = [idx * 1000]

    def payload():
        r = rng.random()
        if r < 0.05:
            return b'\0' * 8
        if r < 0.1:
            return b'\xff' * 8
        counter[0] += 1
        return struct.pack('>Q', counter[0])

    stream = bytearray(pg.preface())
    nsid = 1
    # in "pure" cases the peer sends nothing but PING / PING ACK frames after the handshake, so no
    # receive_data call may fail: every PING must be reported and answered
    pure = rng.random() < 0.4
    open_streams_first = rng.random() < 0.5
    delivered_pings = []        # payloads of complete non-ACK PINGs delivered
    delivered_acks = []
    seen_ack_frames = []        # PING ACK payloads on E's wire
    seen_ping_events = []
    seen_ack_events = []
    own_pings = []
    goaway_seen = False
    dead = False
    all_in = []
    rounds = rng.choice([2, 5, 12])
    st_backlog = [False]
    for rnd in range(rounds):
        if dead or goaway_seen:
            break
        # local traffic
        if e_client and rng.random() < 0.4 and (not pure or open_streams_first):
            r = t.call('send_headers', nsid, gen.valid_headers(rng, 'request'), end_stream=rng.random() < 0.5)
            if r.ok:
                pg.note_e_stream(nsid)
            nsid += 2
        if rng.random() < 0.5:
            local_ping(t, rng, rep, own_pings)
        if e_client and rng.random() < 0.12 and not st_backlog[0]:
            # the application has a whole connection window of its own output queued and not yet written to the socket when
            # the peer's PINGs arrive: they are answered all the same
            r = t.call('send_headers', nsid, gen.valid_headers(rng, 'request'), _drain=False)
            if r.ok:
                pg.note_e_stream(nsid)
                left = 65535
                while left > 0:
                    n = min(left, 16384)
                    if not t.call('send_data', nsid, b'q' * n, _drain=False).ok:
                        break
                    left -= n
                st_backlog[0] = True
                rep.count('rounds_with_a_full_window_of_unsent_output')
            nsid += 2
        # build a burst
        for _ in range(rng.choice([1, 3, 10, 40, 200]) if rng.random() < 0.3 else rng.choice([1, 2, 5])):
            r = rng.random()
            if r < 0.55:
                stream += wire.build_ping(payload())
            elif r < 0.7:
                stream += wire.build_ping(payload(), ack=True)
            elif pure:
                stream += wire.build_ping(payload(), ack=rng.random() < 0.3)
            else:
                m = pg.step()
                fr, _ = wire.parse_frames(m)
                if any(f.type == wire.GOAWAY for f in fr):
                    continue
                stream += m
        fatal = not pure and rng.random() < 0.12
        if fatal:
            # a frame that is a connection error, right behind the PINGs of this burst and often followed by more PINGs
            stream += rng.choice([wire.build_data(0, b'x'), wire.build_window_update(0, 0), wire.build_settings([(wire.S_ENABLE_PUSH, 2)]),
                                  wire.build_settings([(wire.S_MAX_FRAME_SIZE, 1)]), wire.build_ping(b'12345678', sid=1),
                                  wire.raw_frame(wire.PING, 0, 0, b'1234567'), wire.build_rst(0, 0)])
            for _ in range(rng.choice([0, 1, 3])):
                stream += wire.build_ping(payload())
        keep = rng.randrange(0, 9) if rnd != rounds - 1 and rng.random() < 0.5 and not fatal else 0
        data = bytes(stream[:max(0, len(stream) - keep)])
        del stream[:len(data)]
        for ch in gen.chunkings(rng, data, k=rng.choice([1, 1, 2, 4, 16])):
            all_in.append(ch)
            new = inp.feed(ch)
            npings_in_call = 0
            for f in new:
                if f.type == wire.PING and not f.defects:
                    if f.ack:
                        delivered_acks.append(f.opaque)
                    else:
                        delivered_pings.append(f.opaque)
                        npings_in_call += 1
                elif f.type == wire.GOAWAY:
                    goaway_seen = True
            if npings_in_call > 1:
                rep.count('multi_ping_calls')
            twin = None
            if not pure and npings_in_call and len(new) > npings_in_call:
                twin = copy.deepcopy(t.c)          # to find out, if the call raises, at which frame it does
            call_start = inp.consumed + len(inp.buf) - len(ch)
            acks_in_call = []
            res = t.call('receive_data', ch)
            for f in res.frames:
                if f.type == wire.PING:
                    if f.ack:
                        seen_ack_frames.append(f.opaque)
                        acks_in_call.append(f.opaque)
                        if f.stream_id != 0 or f.defects:
                            rep.violation('C26:ack-frame-malformed', 'PING ACK malformed: %r' % f.brief(), wit(t, e_client))
                    else:
                        rep.violation('C26:unsolicited-ping-emitted', 'receive_data emitted a non-ACK PING', wit(t, e_client))
            if res.exc is not None:
                dead = True
                if pure:
                    rep.violation('C26:ping-only-traffic-rejected:' + core.exc_key(res.exc),
                                  'receive_data raised %r although the peer sent only PING / PING ACK frames' % res.exc,
                                  wit(t, e_client, delivered_pings, seen_ack_frames))
                if not isinstance(res.exc, h2.exceptions.ProtocolError):
                    rep.violation('C26:' + core.exc_key(res.exc), 'receive_data raised %r' % res.exc, wit(t, e_client))
                # prefix property ...
                if seen_ack_frames != delivered_pings[:len(seen_ack_frames)]:
                    rep.violation('C26:ack-sequence-not-prefix', 'PING ACKs emitted are not a prefix of PINGs delivered',
                                  wit(t, e_client, delivered_pings, seen_ack_frames))
                # ... and every PING in front of the frame at which the call fails is answered all the same: the frame is
                # located by handing the same bytes to a copy of the endpoint one frame at a time
                if twin is not None:
                    want = acks_frame_by_frame(twin, ch, [f.end - call_start for f in new])
                    rep.count('raising_calls_with_pings_compared')
                    if want != acks_in_call:
                        rep.violation('C26:pings-before-the-failing-frame-unanswered' if len(want) > len(acks_in_call)
                                      else 'C26:acks-differ-when-call-raises',
                                      'a receive_data call that raised emitted %d PING ACKs; the same bytes delivered frame by frame '
                                      'emit %d before the failing frame' % (len(acks_in_call), len(want)),
                                      wit(t, e_client, delivered_pings, seen_ack_frames))
                # nothing delivered, nothing to answer
                late = t.call('receive_data', b'')
                if any(f.type == wire.PING for f in late.frames):
                    rep.violation('C26:ack-emitted-without-ping', 'receive_data(b\'\') after the failed call emitted %s' %
                                  [f.brief() for f in late.frames], wit(t, e_client, delivered_pings, seen_ack_frames))
                break
            for e in res.events:
                n = type(e).__name__
                if n == 'PingReceived':
                    seen_ping_events.append(e.ping_data)
                elif n == 'PingAckReceived':
                    seen_ack_events.append(e.ping_data)
            if goaway_seen:
                # output pending at GOAWAY time is discarded (C19): only the prefix property is decidable
                if seen_ack_frames != delivered_pings[:len(seen_ack_frames)]:
                    rep.violation('C26:ack-sequence-not-prefix', 'PING ACKs emitted are not a prefix of PINGs delivered',
                                  wit(t, e_client, delivered_pings, seen_ack_frames))
                break
            # exact equality after every successful call
            if seen_ack_frames != delivered_pings:
                k = first_diff(seen_ack_frames, delivered_pings)
                kind = ('missing' if len(seen_ack_frames) < len(delivered_pings) else
                        'extra' if len(seen_ack_frames) > len(delivered_pings) else 'payload-or-order')
                rep.violation('C26:ack-sequence-%s' % kind,
                              'after a successful receive_data: %d PINGs delivered, %d ACKs emitted, first difference at %d'
                              % (len(delivered_pings), len(seen_ack_frames), k),
                              wit(t, e_client, delivered_pings, seen_ack_frames))
                dead = True
                break
            if seen_ping_events != delivered_pings:
                rep.violation('C26:pingreceived-events-differ', 'PingReceived events do not mirror delivered PINGs',
                              wit(t, e_client, delivered_pings, seen_ping_events))
                dead = True
                break
            if seen_ack_events != delivered_acks:
                rep.violation('C26:pingackreceived-events-differ', 'PingAckReceived events do not mirror delivered PING ACKs',
                              wit(t, e_client, delivered_acks, seen_ack_events))
                dead = True
                break
    rep.count('pings_matched', len(seen_ack_frames))
    if pure:
        rep.count('pure_ping_cases')
        if not h_has_streams(t):
            rep.count('pure_ping_cases_idle_connection')
    rep.count('ping_acks_delivered', len(delivered_acks))
    if seen_ack_frames:
        rep.nontrivial(b''.join(all_in))
    if idx % 499 == 0:
        rep.sample({'role': 'client' if e_client else 'server', 'pings_delivered': len(delivered_pings),
                    'acks_emitted': len(seen_ack_frames), 'ack_frames_delivered': len(delivered_acks),
                    'first_payloads': [p.hex() for p in delivered_pings[:4]], 'calls': len(all_in)})


def acks_frame_by_frame(conn, chunk, ends):
    """PING ACK payloads `conn` emits when `chunk` is delivered cut at the given frame ends, up to the first raise."""
    acks = []
    pos = 0
    cuts = [e for e in ends if 0 < e <= len(chunk)]
    if not cuts or cuts[-1] != len(chunk):
        cuts.append(len(chunk))
    for e in cuts:
        piece, pos = chunk[pos:e], e
        failed = False
        try:
            conn.receive_data(piece)
        except Exception:
            failed = True
        frames, _ = wire.parse_frames(conn.data_to_send())
        acks += [f.opaque for f in frames if f.type == wire.PING and f.ack]
        if failed:
            break
    return acks


def h_has_streams(t):
    return bool(getattr(t.c, 'streams', None)) or bool(getattr(t.c, 'highest_outbound_stream_id', 0))


def local_ping(t, rng, rep, own):
    r = rng.random()
    if r < 0.5:
        p = bytes(rng.randrange(256) for _ in range(8))
        if own and rng.random() < 0.3:
            p = rng.choice(own)          # the same eight octets again, answered or not in the meantime: a PING like any other
            rep.count('local_ping_payload_repeated')
        res = t.call('ping', p)
        if res.exc is not None:
            if isinstance(res.exc, h2.exceptions.ProtocolError):
                rep.count('local_ping_conn_closed')
                return
            rep.violation('C26:ping-valid-refused:' + type(res.exc).__name__, 'ping(8 bytes) raised %r' % res.exc, wit(t, None))
            return
        pf = [f for f in res.frames if f.type == wire.PING]
        if len(res.frames) != 1 or len(pf) != 1 or pf[0].ack or pf[0].opaque != p or pf[0].stream_id != 0:
            rep.violation('C26:ping-emission-wrong', 'ping(%s) emitted %s' % (p.hex(), [f.brief() for f in res.frames]),
                          wit(t, None))
        else:
            rep.count('local_ping_ok')
            own.append(p)
    elif r < 0.8:
        n = rng.choice([0, 1, 7, 9, 16, 4, 12])
        p = bytes(rng.randrange(256) for _ in range(n))
        res = t.call('ping', p)
        if res.exc is None:
            rep.violation('C26:ping-accepts-%d-bytes' % n, 'ping() accepted a %d-byte payload' % n, wit(t, None))
        elif not isinstance(res.exc, (ValueError, h2.exceptions.ProtocolError)):
            rep.violation('C26:ping-bad-length-raises-' + type(res.exc).__name__, 'ping(%d bytes) raised %r' % (n, res.exc),
                          wit(t, None))
        elif res.frames:
            rep.violation('C26:refused-ping-emitted', 'refused ping() emitted %s' % [f.brief() for f in res.frames], wit(t, None))
        else:
            rep.count('local_ping_refused')
    else:
        # things that are not a byte string of eight octets, although some of them have length 8 or convert to one
        kind, p = rng.choice([('int', 8), ('int', 0), ('str', 'abcdefgh'), ('str', ''), ('none', None), ('list', [1, 2, 3, 4, 5, 6, 7, 8]),
                              ('tuple', (1, 2, 3, 4, 5, 6, 7, 8)), ('tuple', ()), ('tuple', (b'12345678',)), ('range', range(8)),
                              ('bool', True), ('list', [b'12345678'])])
        res = t.call('ping', p)
        if res.exc is None:
            rep.violation('C26:ping-accepts-%s' % kind, 'ping(%r) was accepted and emitted %s' % (p, [f.brief() for f in res.frames]),
                          wit(t, None))
        elif not isinstance(res.exc, (ValueError, TypeError, h2.exceptions.ProtocolError)):
            # (the property only asks that such a payload is not accepted; the unchanged library answers a tuple with the
            # TypeError of its own message formatting, which is a refusal all the same)
            rep.violation('C26:ping-non-bytes-raises-' + type(res.exc).__name__, 'ping(%r) raised %r' % (p, res.exc), wit(t, None))
        elif res.frames:
            rep.violation('C26:refused-ping-emitted', 'refused ping() emitted %s' % [f.brief() for f in res.frames], wit(t, None))
        else:
            rep.count('local_ping_non_bytes_refused')


def first_diff(a, b):
    for i, (x, y) in enumerate(zip(a, b)):
        if x != y:
            return i
    return min(len(a), len(b))


def wit(t, e_client, want=None, got=None):
    w = {'role': None if e_client is None else ('client' if e_client else 'server'), 'log_tail': t.tail_log(8)}
    if want is not None:
        w['expected_tail'] = [p.hex() for p in want[-6:]]
        w['observed_tail'] = [p.hex() for p in got[-6:]]
        w['expected_len'] = len(want)
        w['observed_len'] = len(got)
    return w
