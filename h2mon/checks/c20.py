"""C20 - frames racing a local stream reset never break the connection.

After E resets stream s (or refuses a push because the parent was reset), the
scripted peer delivers the frames it had "in flight": HEADERS, DATA (padded,
END_STREAM), WINDOW_UPDATE, RST_STREAM, PUSH_PROMISE on s and HEADERS / DATA /
RST_STREAM on streams promised on s.  Oracle: no exception, no event naming s or
a stream promised on s, the advertised connection window keeps being
replenished (the peer sends racing DATA within the window it was granted until
far more than 65535 bytes have crossed; a window stuck at 0 is the violation),
and header blocks among the racing frames keep the compression context in sync
(the peer encodes with a real indexing HPACK encoder; later messages on other
streams reference fields introduced by racing blocks).
"""
import hpack
import h2.exceptions

from .. import core, scen, wire
from ..scen import REQ, RESP

LEVEL = 'exploration'
RULE = ('each case = one endpoint, s driven to open / half-closed(local) / half-closed(remote) / reserved(remote), optional '
        'other traffic, E resets s, optionally 0-200 other streams are opened and closed (so s is cleaned up), the local MAX_CONCURRENT_STREAMS default / 0 / small and saturated by open streams, then 1-50 racing '
        'frames (incl. informational responses, pushes on s and traffic on the promised streams, up to 120 kB of racing DATA) interleaved with fresh valid '
        'messages on other streams that reference header fields introduced by the racing blocks; non-trivial = at least 3 '
        'racing frames delivered and judged; distinct = hash of the schedule')
MINIMA = {'racing_frames_judged': 30000, 'racing_data_bytes_over_64k_cases': 100, 'racing_header_blocks': 3000,
          'later_messages_header_checked': 3000, 'refused_push_cases': 300, 'after_cleanup_cases': 800, 'pad_flood_cases': 100,
          'local_stream_limit_saturated_cases': 500, 'newer_bystander_stream_cases': 500, 'cases_with_small_closed_stream_memory': 250, 'racing_informational_blocks': 200}


def n_cases(tier):
    return 6000 if tier == 'quick' else 300000


def run_case(idx, rng, tier, rep):
    e_client = rng.random() < 0.6
    # E's own MAX_CONCURRENT_STREAMS: a client that allows no pushed streams, a server with a small limit that is then saturated
    mcs = rng.choice([None, None, 0, 1] if e_client else [None, None, 1, 2, 3])
    h = scen.Hostile(e_client, keep_log=True, e_settings=None if mcs is None else {wire.S_MAX_CONCURRENT_STREAMS: mcs})
    small_memory = False
    if rng.random() < 0.3:
        # a small closed-stream memory (H2Connection.MAX_CLOSED_STREAMS is the documented knob; here the limit of the instance's
        # own table is lowered): what is remembered about the reset stream and about refused promises must survive as long as
        # they are among the newest entries
        cs = getattr(h.c, '_closed_streams', None)
        if hasattr(cs, '_size_limit') and e_client and mcs is None:
            cs._size_limit = 64
            small_memory = True
    saturated = [False]
    t = h.t
    enc = hpack.Encoder()          # the peer's real, indexing encoder
    sched = []
    st = {'alive': True}
    conn_w = [65535]               # connection window the peer was granted (shadow)
    forbidden = set()              # stream ids that must never again appear in an event
    fresh = [0]

    def pblock(hs):
        return enc.encode(hs)

    def fail(key, what):
        rep.violation(key, what, {'role': 'client' if e_client else 'server', 'schedule': [str(x) for x in sched[-14:]],
                                  'log_tail': t.tail_log(4)})
        st['alive'] = False

    def deliver(data, what, racing=True):
        res = h.send(data)
        sched.append(what)
        for f in res.frames:
            if f.type == wire.WINDOW_UPDATE and f.stream_id == 0 and not f.defects:
                conn_w[0] += f.increment
        if racing:
            rep.count('racing_frames_judged')
        if res.exc is not None:
            fail('C20:%s-breaks-connection:%s' % (what[0], core.exc_key(res.exc)),
                 'delivery of %s raised %r' % (what, res.exc))
            return None
        for e in res.events:
            ids = [getattr(e, a, None) for a in ('stream_id', 'pushed_stream_id', 'parent_stream_id')]
            bad = [i for i in ids if i in forbidden]
            if bad:
                fail('C20:event-for-reset-stream:%s:%s' % (type(e).__name__, what[0]),
                     '%s for stream %s returned after the local reset (delivery of %s)' % (type(e).__name__, bad, what))
                return None
        return res

    def prefill():
        # fill the small memory with old closed streams before the stream under test exists: from then on every new entry pushes
        # out the oldest one, and the reset stream and the refused promises stay among the newest
        for _ in range(70):
            o, r0 = h.e_request(end_stream=True)
            if not r0.ok or deliver(wire.build_headers(o, pblock(RESP), end_stream=True), ('prefill', o), racing=False) is None:
                return False
        h.cleanup()
        rep.count('cases_with_small_closed_stream_memory')
        return True

    def fresh_fields(n=2):
        out = []
        for _ in range(n):
            fresh[0] += 1
            out.append((b'x-race-%d' % fresh[0], b'value-%d' % fresh[0]))
        return out

    # ---- bring s into its state
    if small_memory and not prefill():
        return
    state = rng.choice(['open', 'open_resp', 'hc_local', 'hc_remote', 'reserved'] if e_client else ['open', 'open_resp', 'hc_local', 'hc_remote'])
    introduced = []
    if e_client:
        if state == 'reserved':
            par, r = h.e_request()
            p = h.peer_next
            h.peer_next += 2
            if deliver(wire.build_push_promise(par, p, pblock(REQ)), ('setup-push', par, p), racing=False) is None:
                return
            s = p
        else:
            s, r = h.e_request(end_stream=(state == 'hc_local'))
            if state in ('open_resp', 'hc_remote'):
                if deliver(wire.build_headers(s, pblock(RESP), end_stream=(state == 'hc_remote')), ('setup-response', s), racing=False) is None:
                    return
    else:
        s = h.peer_next
        h.peer_next += 2
        if deliver(wire.build_headers(s, pblock(scen.REQ_POST), end_stream=(state == 'hc_remote')), ('setup-request', s), racing=False) is None:
            return
        if state in ('open_resp', 'hc_local'):
            t.call('send_headers', s, RESP, end_stream=(state == 'hc_local'))
    # some DATA before the reset (peer side, where legal)
    peer_can_data = (state in ('open_resp',) or (state in ('open', 'hc_local') and not e_client))
    if peer_can_data and rng.random() < 0.5:
        n = rng.choice([1, 1000, 16384])
        if deliver(wire.build_data(s, b'd' * n), ('setup-data', s, n), racing=False) is None:
            return
        conn_w[0] -= n
        t.call('acknowledge_received_data', n, s)
        for f in t.frames[-2:]:
            pass
    # resynchronise the shadow with whatever E emitted so far
    conn_w[0] = 65535 + sum(f.increment for f in t.frames if f.type == wire.WINDOW_UPDATE and f.stream_id == 0) - \
        sum(len(d) for d in [])  # (DATA debits are tracked explicitly below)
    conn_w[0] = getattr(t.c, 'inbound_flow_control_window', conn_w[0])
    # ---- a newer stream that stays open (or ends normally) while s is reset and later swept: what is remembered about s must
    # not be mixed up with its neighbours
    if mcs is None and rng.random() < 0.4:
        if e_client:
            o, r0 = h.e_request(end_stream=rng.random() < 0.5)
            if not r0.ok:
                return
            if rng.random() < 0.3 and deliver(wire.build_headers(o, pblock(RESP), end_stream=True), ('bystander-response', o), racing=False) is None:
                return
        else:
            o = h.peer_next
            h.peer_next += 2
            if deliver(wire.build_headers(o, pblock(REQ), end_stream=rng.random() < 0.5), ('bystander-request', o), racing=False) is None:
                return
            if rng.random() < 0.3:
                t.call('send_headers', o, RESP, end_stream=True)
        rep.count('newer_bystander_stream_cases')
    # ---- the local reset
    r = t.call('reset_stream', s, rng.choice([8, 0, 7]))
    sched.append(('RESET', s, state))
    if not r.ok:
        return
    forbidden.add(s)
    promised = []
    # ---- optional cleanup of s and other streams in between
    cleaned = rng.random() < 0.45
    if cleaned:
        rep.count('after_cleanup_cases')
        for _ in range(rng.choice([1, 1, 3] if small_memory else [1, 1, 3, 20, 200])):
            if e_client:
                o, r0 = h.e_request(end_stream=True)
                if not r0.ok:
                    break
                if deliver(wire.build_headers(o, pblock(RESP), end_stream=True), ('other-stream', o), racing=False) is None:
                    return
            else:
                o = h.peer_next
                h.peer_next += 2
                if deliver(wire.build_headers(o, pblock(REQ), end_stream=True), ('other-stream', o), racing=False) is None:
                    return
                t.call('send_headers', o, RESP, end_stream=True)
        h.cleanup()
    if mcs is not None:
        rep.count('local_stream_limit_set_cases')
        if not e_client:
            # fill every slot with a request that stays open: racing frames must still be treated as racing frames
            for _ in range(mcs):
                o = h.peer_next
                h.peer_next += 2
                if deliver(wire.build_headers(o, pblock(REQ)), ('slot-filler', o), racing=False) is None:
                    return
            saturated[0] = True
            if rng.random() < 0.5:
                h.cleanup()
        else:
            saturated[0] = mcs == 0
        if saturated[0]:
            rep.count('local_stream_limit_saturated_cases')
    # ---- racing frames
    nrace = rng.choice([1, 3, 8, 20, 50])
    big_data = rng.random() < 0.35
    sent_data = 0
    judged = 0
    s_open_for_peer = state not in ('hc_remote',)      # the peer had not ended s from its side
    got_headers = state in ('open_resp', 'hc_remote') or not e_client
    pad_flood = (not big_data) and rng.random() < 0.12
    if pad_flood:
        rep.count('pad_flood_cases')
    for i in range((nrace if not big_data else nrace + 60) if not pad_flood else rng.choice([400, 900, 1500])):
        if not st['alive']:
            return
        opts = ['wu', 'rst']
        if s_open_for_peer:
            opts += ['data', 'data', 'headers']
            if e_client and state != 'reserved':
                opts += ['push', 'push']
        if promised:
            opts += ['promised-headers', 'promised-data', 'promised-rst']
        if big_data and s_open_for_peer and got_headers:
            opts = ['data'] * 6 + opts
        if pad_flood and s_open_for_peer:
            opts = ['data'] * 30 + ['wu']      # nothing that ends the stream from the peer's side
        k = rng.choice(opts)
        if k == 'data':
            if not got_headers:
                k = 'headers'
            else:
                w = conn_w[0]
                if w <= 0:
                    fail('C20:connection-window-not-replenished',
                         'the peer is blocked: advertised connection window %d after %d racing DATA bytes on the reset stream' % (w, sent_data))
                    return
                pad = rng.choice([None, None, 0, 5, 255])
                over = 0 if pad is None else pad + 1
                tot = min(w, rng.choice([1, 100, 4000, 16384]) if not big_data else rng.choice([16384, 16384, 9000]))
                if pad_flood:
                    # many small frames that are mostly padding
                    pad = rng.choice([255, 255, 200, 100, None])
                    over = 0 if pad is None else pad + 1
                    tot = min(w, over + rng.choice([0, 1, 20]))
                if tot < over:
                    pad, over = None, 0
                es = rng.random() < (0.05 if not pad_flood else 0.0)
                if deliver(wire.build_data(s, b'r' * (tot - over), end_stream=es, pad=pad), ('data', s, tot, pad, es)) is None:
                    return
                conn_w[0] -= tot
                sent_data += tot
                judged += 1
                if es:
                    s_open_for_peer = False
                continue
        if k == 'headers':
            ff = fresh_fields()
            introduced.extend(ff)
            rep.count('racing_header_blocks')
            if not got_headers and e_client and rng.random() < 0.4:
                # an informational response racing the reset (100 Continue / 103 Early Hints)
                rep.count('racing_informational_blocks')
                if deliver(wire.build_headers(s, pblock([(b':status', rng.choice([b'100', b'103']))] + ff)), ('informational', s)) is None:
                    return
                judged += 1
                continue
            if not got_headers:
                blk = pblock(RESP + ff)
                es = rng.random() < 0.3
                got_headers = True
            else:
                blk = pblock(ff)         # trailers
                es = True
            if deliver(wire.build_headers(s, blk, end_stream=es), ('headers', s, es)) is None:
                return
            if es:
                s_open_for_peer = False
            judged += 1
        elif k == 'wu':
            if deliver(wire.build_window_update(s, rng.choice([1, 1000, 2 ** 31 - 1])), ('window_update', s)) is None:
                return
            judged += 1
        elif k == 'rst':
            if deliver(wire.build_rst(s, rng.choice([0, 8, 5])), ('rst_stream', s)) is None:
                return
            s_open_for_peer = False
            judged += 1
        elif k == 'push':
            p = h.peer_next
            h.peer_next += 2
            ff = fresh_fields()
            introduced.extend(ff)
            rep.count('racing_header_blocks')
            if len(promised) == 0:
                rep.count('refused_push_cases')
            res = deliver(wire.build_push_promise(s, p, pblock(REQ + ff)), ('push_promise', s, p))
            if res is None:
                return
            forbidden.add(p)
            promised.append([p, 'reserved'])
            judged += 1
        elif k.startswith('promised'):
            ent = rng.choice(promised)
            p, pst = ent
            if k == 'promised-headers':
                if pst == 'reserved':
                    ff = fresh_fields()
                    introduced.extend(ff)
                    rep.count('racing_header_blocks')
                    es = rng.random() < 0.3
                    if deliver(wire.build_headers(p, pblock(RESP + ff), end_stream=es), ('promised-headers', p, es)) is None:
                        return
                    ent[1] = 'ended' if es else 'open'
                    judged += 1
            elif k == 'promised-data':
                if pst == 'open':
                    w = conn_w[0]
                    if w <= 0:
                        fail('C20:connection-window-not-replenished', 'the peer is blocked at connection window %d (refused push data)' % w)
                        return
                    tot = min(w, rng.choice([1, 500, 16384]))
                    es = rng.random() < 0.2
                    if deliver(wire.build_data(p, b'p' * tot, end_stream=es), ('promised-data', p, tot, es)) is None:
                        return
                    conn_w[0] -= tot
                    sent_data += tot
                    if es:
                        ent[1] = 'ended'
                    judged += 1
            else:
                if deliver(wire.build_rst(p, 8), ('promised-rst', p)) is None:
                    return
                ent[1] = 'ended'
                judged += 1
        # a valid message on another stream that re-uses fields introduced by racing blocks
        if introduced and rng.random() < 0.35 and st['alive'] and not (saturated[0] and not e_client):
            ref = [rng.choice(introduced) for _ in range(rng.randrange(1, 4))]
            if e_client:
                o, r0 = h.e_request(end_stream=True)
                if not r0.ok:
                    continue
                hs = RESP + ref
                res = deliver(wire.build_headers(o, pblock(hs), end_stream=True), ('later-response', o), racing=False)
                want_ev = 'ResponseReceived'
            else:
                o = h.peer_next
                h.peer_next += 2
                hs = REQ + ref
                res = deliver(wire.build_headers(o, pblock(hs), end_stream=True), ('later-request', o), racing=False)
                want_ev = 'RequestReceived'
            if res is None:
                return
            ev = [e for e in res.events if type(e).__name__ == want_ev and e.stream_id == o]
            rep.count('later_messages_header_checked')
            if len(ev) != 1 or core.canon_headers(ev[0].headers) != hs:
                fail('C20:compression-context-out-of-sync-after-racing-block',
                     'message on stream %d delivered headers %r, the peer encoded %r' %
                     (o, core.canon_headers(ev[0].headers)[:6] if ev else None, hs[:6]))
                return
            if not e_client:
                t.call('send_headers', o, RESP, end_stream=True)
    if sent_data > 70000:
        rep.count('racing_data_bytes_over_64k_cases')
    if judged >= 3:
        rep.nontrivial((e_client, tuple(str(x) for x in sched)))
    if idx % 397 == 0:
        rep.sample({'role': 'client' if e_client else 'server', 'state_of_s': state, 'cleaned_up': cleaned,
                    'schedule': [str(x) for x in sched[:30]], 'racing_data_bytes': sent_data})
