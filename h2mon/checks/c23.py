"""C23 - priority information round-trips and never changes stream state.

(1) round trip through a real client/server pair: every weight 1..256, the
defaults (16, 0, False), depends_on and exclusive values, via prioritize() and
via the priority arguments of send_headers (attached to the request's
priority_updated); wire fields checked with the independent codec.
(2) refusal: servers (RFC1122Error), weights outside 1..256, self-dependency.
(3) neutrality of received PRIORITY frames: only one PriorityUpdated, identical
observable state before/after, and - differentially - a twin that never received
the PRIORITY frames behaves identically in a full continuation (request,
response, push, data).
"""
import h2.exceptions

from .. import core, duet, scen, wire
from ..scen import REQ, RESP, hb

LEVEL = 'exploration'
RULE = ('cases 0..255: one weight each (exhaustive sweep every run) through prioritize() and send_headers(priority_*) with '
        'random depends_on / exclusive; further cases: refusal probes (each refused call followed by the same calls on a twin that never made it: same bytes, same outcomes) and PRIORITY frames on idle / open / half-closed / closed / '
        'far-future ids of both parities delivered to a client or server in connection states idle and open, followed by a '
        'differential continuation against a twin that did not receive them; non-trivial = round trip compared or neutrality '
        'judged; distinct = hash of the case parameters')
MINIMA = {'roundtrip_prioritize_checked': 256, 'roundtrip_headers_checked': 256, 'refusals_checked': 500, 'server_priority_on_own_pushed_stream_checked': 200, 'self_dependent_frames_judged': 100, 'follow_up_calls_compared_after_refusal': 500,
          'priority_frames_neutrality_checked': 3000, 'differential_continuations': 600, 'idle_connection_priority_cases': 150, 'roundtrip_headers_near_frame_size': 200}


def n_cases(tier):
    return 256 + (2500 if tier == 'quick' else 200000)


def run_case(idx, rng, tier, rep):
    if idx < 256:
        return roundtrip(idx + 1, rng, rep)
    r = rng.random()
    if r < 0.25:
        return roundtrip(rng.choice([1, 2, 16, 255, 256, rng.randrange(1, 257)]), rng, rep)
    if r < 0.45:
        return refusals(rng, rep)
    return neutrality(rng, rep)


def roundtrip(weight, rng, rep):
    d = duet.Duet()
    d.handshake()
    # some streams to depend on
    for sid in (1, 3):
        d.call('c', 'send_headers', sid, REQ, end_stream=(sid == 1))
    d.settle()
    dep = rng.choice([None, 0, 1, 3, 7, 101, 2 ** 31 - 1])
    excl = rng.choice([None, True, False])
    w = rng.choice([weight, weight, None]) if weight == 16 else weight
    target = rng.choice([3, 5, 9, 2 ** 31 - 1])
    if dep == target:
        dep = 0
    res = d.call('c', 'prioritize', target, weight=w, depends_on=dep, exclusive=excl)
    wit = {'weight': w, 'depends_on': dep, 'exclusive': excl, 'target': target}
    if res.exc is not None:
        rep.violation('C23:valid-prioritize-refused', 'prioritize(%s) raised %r' % (wit, res.exc), wit)
        return
    want = (target, 16 if w is None else w, 0 if dep is None else dep, False if excl is None else bool(excl))
    pf = [f for f in res.frames if f.type == wire.PRIORITY]
    if len(res.frames) != 1 or len(pf) != 1 or (pf[0].stream_id, pf[0].weight + 1, pf[0].depends_on, pf[0].exclusive) != want:
        rep.violation('C23:priority-frame-differs-from-call', 'PRIORITY frame %s for call %s' % ([f.brief() for f in res.frames], wit), wit)
        return
    out = d.settle()
    evs = [e for side, r in out if side == 's' and r is not None for e in r.events if type(e).__name__ == 'PriorityUpdated']
    rep.count('roundtrip_prioritize_checked')
    if len(evs) != 1 or (evs[0].stream_id, evs[0].weight, evs[0].depends_on, evs[0].exclusive) != want:
        got = [(e.stream_id, e.weight, e.depends_on, e.exclusive) for e in evs]
        rep.violation('C23:roundtrip-differs:prioritize:%s' % ('weight' if got and got[0][1] != want[1] else 'other'),
                      'prioritize sent %s, server saw %s' % (want, got), wit)
        return
    if d.errors:
        rep.violation('C23:prioritize-broke-connection', repr(d.errors[0][1]), wit)
        return
    # same through send_headers
    sid = 11
    dep2 = rng.choice([None, 0, 1, 3, 9])
    excl2 = rng.choice([None, True, False])
    kw = {}
    if w is not None:
        kw['priority_weight'] = w
    if dep2 is not None:
        kw['priority_depends_on'] = dep2
    if excl2 is not None:
        kw['priority_exclusive'] = excl2
    if not kw:
        kw['priority_weight'] = w = 16
    hs = REQ
    if rng.random() < 0.4:
        # a header block whose encoded size is close to MAX_FRAME_SIZE: the five priority octets share the first frame with it
        # (characters with 8-bit Huffman codes, so the encoded length follows the value length)
        n = rng.randrange(16290, 16400)
        hs = REQ + [(b'x-big', bytes(rng.choice(b'XZ') for _ in range(n)))]
        rep.count('roundtrip_headers_near_frame_size')
    res = d.call('c', 'send_headers', sid, hs, end_stream=True, **kw)
    wit2 = {'stream': sid, 'kw': kw, 'header_block': 'default' if hs is REQ else 'x-big of %d octets' % len(hs[-1][1])}
    if res.exc is not None:
        rep.violation('C23:valid-priority-headers-refused', 'send_headers(%s) raised %r' % (kw, res.exc), wit2)
        return
    want2 = (sid, 16 if w is None else w, 0 if dep2 is None else dep2, False if excl2 is None else bool(excl2))
    out = d.settle()
    evlists = [r.events for side, r in out if side == 's' and r is not None]
    reqs = [(e, evl) for evl in evlists for e in evl if type(e).__name__ == 'RequestReceived' and e.stream_id == sid]
    rep.count('roundtrip_headers_checked')
    rep.nontrivial(('roundtrip', weight, dep, excl, dep2, excl2, target))
    if len(reqs) != 1:
        rep.violation('C23:request-with-priority-not-delivered', 'no RequestReceived for the prioritised request (%s)' % d.errors, wit2)
        return
    e, evl = reqs[0]
    pu = e.priority_updated
    if pu is None or not any(x is pu for x in evl) or type(pu).__name__ != 'PriorityUpdated':
        rep.violation('C23:priority_updated-not-attached', 'RequestReceived.priority_updated = %r' % pu, wit2)
        return
    got2 = (pu.stream_id, pu.weight, pu.depends_on, pu.exclusive)
    if got2 != want2:
        rep.violation('C23:roundtrip-differs:send_headers:%s' % ('weight' if got2[1] != want2[1] else 'other'),
                      'send_headers sent %s, server saw %s' % (want2, got2), wit2)
        return
    if len(rep.samples) < 3 and weight in (1, 256):
        rep.sample({'weight': weight, 'prioritize': wit, 'send_headers_kw': kw, 'server_saw': [want, got2]})


def refusals(rng, rep):
    # server side calls
    hs = scen.Hostile(False, keep_log=True)
    sid = hs.open_stream()
    for call in (('prioritize', (sid,), {'weight': rng.choice([1, 16, 256])}),
                 ('prioritize', (sid,), {'depends_on': 0}),
                 ('send_headers', (sid, RESP), {'priority_weight': 16}),
                 ('send_headers', (sid, RESP), {'priority_exclusive': False}),
                 ('send_headers', (sid, RESP), {'priority_depends_on': 0})):
        op, a, kw = call
        h2_ = scen.Hostile(False, keep_log=True)
        s2 = h2_.open_stream()
        res = h2_.t.call(op, *((s2,) + a[1:]), **kw)
        rep.count('refusals_checked')
        if res.exc is None or res.frames:
            rep.violation('C23:server-priority-accepted:%s' % op, 'server %s(%s) returned normally / emitted %s' %
                          (op, kw, [f.name for f in res.frames]), {'call': [op, kw]})
            return
        if not isinstance(res.exc, h2.exceptions.H2Error):
            rep.violation('C23:server-priority-raises-' + type(res.exc).__name__, repr(res.exc), {'call': [op, kw]})
            return
    # ... and the same on a stream the server itself has promised (an id of its own): still no priority from a server
    for kw in ({'priority_weight': rng.choice([1, 16, 256])}, {'priority_depends_on': 0}, {'priority_exclusive': True},
               {'priority_weight': 5, 'priority_depends_on': 1, 'priority_exclusive': False}):
        h3 = scen.Hostile(False, keep_log=True)
        s3 = h3.open_stream()
        pid = h3.e_next
        if not h3.t.call('push_stream', s3, pid, REQ).ok:
            continue
        res = h3.t.call('send_headers', pid, RESP, **kw)
        rep.count('refusals_checked')
        rep.count('server_priority_on_own_pushed_stream_checked')
        if res.exc is None or res.frames:
            rep.violation('C23:server-priority-accepted:send_headers-on-pushed-stream', 'server send_headers(%d, %s) on its own pushed stream '
                          'returned normally / emitted %s' % (pid, kw, [f.name for f in res.frames]), {'call': ['send_headers', str(kw)]})
            return
        res = h3.t.call('prioritize', pid, weight=7)
        if res.exc is None or res.frames:
            rep.violation('C23:server-priority-accepted:prioritize-on-pushed-stream', 'server prioritize(%d) returned normally' % pid, {})
            return
    # client side invalid values
    for w in (0, 257, -1, 300, rng.choice([1000, -100])):
        hc = scen.Hostile(True, keep_log=True)
        res = hc.t.call('prioritize', 1, weight=w)
        rep.count('refusals_checked')
        if res.exc is None or res.frames:
            rep.violation('C23:out-of-range-weight-accepted:prioritize', 'prioritize(weight=%d) accepted' % w, {'weight': w})
            return
        hc = scen.Hostile(True, keep_log=True)
        res = hc.t.call('send_headers', 1, REQ, priority_weight=w)
        rep.count('refusals_checked')
        if res.exc is None or res.frames:
            rep.violation('C23:out-of-range-weight-accepted:send_headers', 'send_headers(priority_weight=%d) accepted' % w, {'weight': w})
            return
    for sid in (1, 5, 2 ** 31 - 1):
        hc = scen.Hostile(True, keep_log=True)
        res = hc.t.call('prioritize', sid, depends_on=sid)
        rep.count('refusals_checked')
        if res.exc is None or res.frames:
            rep.violation('C23:self-dependency-accepted:prioritize', 'prioritize(%d, depends_on=%d) accepted' % (sid, sid), {})
            return
        hc = scen.Hostile(True, keep_log=True)
        res = hc.t.call('send_headers', sid, REQ, priority_depends_on=sid)
        rep.count('refusals_checked')
        if res.exc is None or res.frames:
            rep.violation('C23:self-dependency-accepted:send_headers', 'send_headers(%d, priority_depends_on=%d) accepted' % (sid, sid), {})
            return
    # a refused call leaves no trace: the same follow-up calls give the same bytes and outcomes as on a twin that never
    # made the refused call (stream table, id watermark and compression context included)
    for _ in range(6):
        a, b = scen.Hostile(True, keep_log=True), scen.Hostile(True, keep_log=True)
        nxt = 1
        for _ in range(rng.choice([0, 1, 2])):
            for x in (a, b):
                x.t.call('send_headers', nxt, REQ + [(b'x-seen', b'%d' % nxt)], end_stream=False)
            nxt += 2
        sid = rng.choice([nxt, nxt, nxt + 2] + ([nxt - 2] if nxt > 1 else []))
        hdrs = REQ + [(b'x-fresh', b'%d' % rng.randrange(1000)), (b'x-seen', b'1')]
        bad = rng.choice([('send_headers', (sid, hdrs), {'priority_depends_on': sid}),
                          ('send_headers', (sid, hdrs), {'priority_weight': rng.choice([0, 257, -1])}),
                          ('send_headers', (sid, hdrs), {'priority_depends_on': sid, 'priority_weight': 256, 'priority_exclusive': True}),
                          ('prioritize', (sid,), {'depends_on': sid}),
                          ('prioritize', (sid,), {'weight': rng.choice([0, 257])}),
                          ('prioritize', (sid,), {'depends_on': sid, 'weight': 1, 'exclusive': True})])
        res = a.t.call(bad[0], *bad[1], **bad[2])
        rep.count('refusals_checked')
        if res.exc is None and sid >= nxt:
            rep.violation('C23:invalid-priority-accepted:%s' % bad[0], '%s(%s) accepted' % (bad[0], bad[2]), {'call': [bad[0], str(bad[2])]})
            return
        if res.exc is None:
            continue        # (trailers-position call on an open stream: another matter)
        follow = [('send_headers', (sid, hdrs), {'priority_weight': 7, 'priority_depends_on': 0}),
                  ('prioritize', (sid,), {'weight': 9, 'depends_on': 0}),
                  ('send_headers', (max(sid, nxt) + 2, REQ + [(b'x-fresh', b'2'), (b'x-seen', b'3')]), {}),
                  ('prioritize', (max(sid, nxt) + 8,), {'weight': 200, 'depends_on': sid, 'exclusive': True})]
        rng.shuffle(follow)
        for op, args, kw in follow:
            ra, rb = a.t.call(op, *args, **kw), b.t.call(op, *args, **kw)
            rep.count('follow_up_calls_compared_after_refusal')
            if type(ra.exc) is not type(rb.exc) or ra.out != rb.out:
                rep.violation('C23:refused-priority-call-leaves-a-trace:%s' % bad[0],
                              'after a refused %s(%s, %s) the call %s%s %s / emits %d bytes; without the refused call it %s / emits %d bytes' %
                              (bad[0], bad[1][0], bad[2], op, (args[0], kw), 'raises %r' % ra.exc if ra.exc else 'succeeds', len(ra.out),
                               'raises %r' % rb.exc if rb.exc else 'succeeds', len(rb.out)),
                              {'refused': [bad[0], bad[1][0], str(bad[2])], 'follow_up': [op, args[0], str(kw)],
                               'bytes_after_refusal': ra.out.hex()[:400], 'bytes_on_twin': rb.out.hex()[:400]})
                return
    rep.nontrivial(('refusals', rng.random()))


def observable_state(h):
    c = h.c
    snap = {}
    try:
        snap['next_id'] = c.get_next_available_stream_id()
    except Exception as e:      # noqa
        snap['next_id'] = type(e).__name__
    snap['open_out'] = c.open_outbound_streams
    snap['open_in'] = c.open_inbound_streams
    snap['conn_windows'] = (getattr(c, 'outbound_flow_control_window', None), getattr(c, 'inbound_flow_control_window', None))
    ws = {}
    for sid in sorted(getattr(c, 'streams', {})):
        try:
            ws[sid] = (c.local_flow_control_window(sid), c.remote_flow_control_window(sid))
        except Exception as e:  # noqa
            ws[sid] = type(e).__name__
    snap['stream_windows'] = ws
    snap['tables'] = (len(getattr(c, 'streams', ())), len(getattr(c, '_closed_streams', ())))
    st = getattr(getattr(c, 'state_machine', None), 'state', None)
    snap['conn_closed'] = getattr(st, 'name', None) == 'CLOSED'
    return snap


def neutrality(rng, rep):
    e_client = rng.random() < 0.5
    h = scen.Hostile(e_client, keep_log=True)
    t = h.t
    conn_state = rng.choice(['idle', 'idle', 'open'])
    known = []
    if conn_state == 'open':
        for _ in range(rng.randrange(1, 4)):
            known.append(h.reach(rng.choice(['open', 'open_resp', 'hc_remote', 'hc_local', 'closed_es', 'closed_rst_sent'])))
        if rng.random() < 0.4:
            h.cleanup()
    else:
        rep.count('idle_connection_priority_cases')
    twin = t.clone()         # never receives the PRIORITY frames
    nframes = rng.randrange(1, 6)
    for _ in range(nframes):
        sid = rng.choice(known + [1, 2, 3, 4, 101, 102, 2 ** 31 - 1, 2 ** 31 - 2, h.peer_next, h.e_next])
        dep = rng.choice([0, 1, 2, 3, 99, 2 ** 31 - 1])
        if dep == sid:
            dep = 0
        w = rng.randrange(256)
        ex = rng.random() < 0.5
        before = observable_state(h)
        res = h.send(wire.build_priority(sid, dep, ex, w))
        wit = {'role': 'client' if e_client else 'server', 'conn_state': conn_state, 'priority': [sid, dep, ex, w], 'log_tail': t.tail_log(3)}
        rep.count('priority_frames_neutrality_checked')
        if res.exc is not None:
            rep.violation('C23:priority-frame-rejected:' + core.exc_key(res.exc), 'PRIORITY(%d) raised %r' % (sid, res.exc), wit)
            return
        pus = [e for e in res.events if type(e).__name__ == 'PriorityUpdated']
        if len(res.events) != 1 or len(pus) != 1 or (pus[0].stream_id, pus[0].weight, pus[0].depends_on, pus[0].exclusive) != (sid, w + 1, dep, ex):
            rep.violation('C23:priority-frame-events-wrong', 'PRIORITY(%s) produced %s' % ([sid, dep, ex, w], [core.ev_brief(e) for e in res.events]), wit)
            return
        if res.frames:
            rep.violation('C23:priority-frame-answered', 'PRIORITY answered with %s' % [f.brief() for f in res.frames], wit)
            return
        after = observable_state(h)
        if after != before:
            diff = [k for k in before if before[k] != after[k]]
            rep.violation('C23:priority-frame-changed-state:%s' % diff[0], 'PRIORITY(%d) changed %s: %s -> %s' %
                          (sid, diff, [before[k] for k in diff], [after[k] for k in diff]), wit)
            return
    # self-dependency is an error
    if rng.random() < 0.2:
        sid = rng.choice(known + [1, 2, 7, 255, 256, 257, 258, 1001, 65537, 2 ** 31 - 2, 2 ** 31 - 1])
        if rng.random() < 0.3:
            # the same rule for priority fields carried by a HEADERS frame that opens the stream
            sid = (h.peer_next if not e_client else None) or sid
            sid = rng.choice([sid, sid + 256, sid + 1000]) if not e_client else sid
            data = wire.build_headers(sid, hb(REQ), priority=(sid, rng.random() < 0.5, 10)) if not e_client else \
                wire.build_priority(sid, sid, True, 200)
        else:
            data = wire.build_priority(sid, sid, rng.random() < 0.5, rng.choice([0, 1, 255]))
        res = h.send(data)
        rep.count('self_dependent_frames_judged')
        if res.exc is None and not any(f.type == wire.RST_STREAM for f in res.frames):
            rep.violation('C23:self-dependent-priority-frame-accepted', 'a frame making stream %d depend on itself was accepted: events %s' %
                          (sid, [core.ev_brief(e) for e in res.events]), {'stream': sid})
        rep.nontrivial(('selfdep', e_client, sid))
        return
    # differential continuation: the twin that never saw the PRIORITY frames must behave identically
    rep.count('differential_continuations')
    a = continuation(h.t, e_client, h.e_next, h.peer_next)
    b = continuation(twin, e_client, h.e_next, h.peer_next)
    rep.nontrivial(('neutral', e_client, conn_state, nframes, tuple(known)))
    if a != b:
        k = next((i for i, (x, y) in enumerate(zip(a, b)) if x != y), min(len(a), len(b)))
        rep.violation('C23:behaviour-differs-after-priority-frames:%s' % (a[k][0] if k < len(a) else 'length'),
                      'after receiving PRIORITY frames step %d of the continuation gives %r, without them %r' %
                      (k, a[k] if k < len(a) else None, b[k] if k < len(b) else None),
                      {'role': 'client' if e_client else 'server', 'conn_state': conn_state})


def continuation(t, e_client, e_next, peer_next):
    """A fixed exchange; returns a transcript of (step, outcome)."""
    tr = []

    def rec(name, res):
        tr.append((name, type(res.exc).__name__ if res.exc else 'ok', res.out, repr(core.canon_events(res.events))))
    if e_client:
        rec('request', t.call('send_headers', e_next, REQ))
        rec('response', t.call('receive_data', wire.build_headers(e_next, hb(RESP))))
        rec('push', t.call('receive_data', wire.build_push_promise(e_next, peer_next, hb(REQ))))
        rec('pushed-response', t.call('receive_data', wire.build_headers(peer_next, hb(RESP))))
        rec('pushed-data', t.call('receive_data', wire.build_data(peer_next, b'pushed', end_stream=True)))
        rec('data', t.call('receive_data', wire.build_data(e_next, b'body', end_stream=True)))
        rec('end', t.call('end_stream', e_next))
        rec('second-request', t.call('send_headers', e_next + 2, REQ, end_stream=True))
    else:
        rec('request', t.call('receive_data', wire.build_headers(peer_next, hb(REQ))))
        rec('response', t.call('send_headers', peer_next, RESP))
        rec('push', t.call('push_stream', peer_next, e_next, REQ))
        rec('pushed-response', t.call('send_headers', e_next, RESP, end_stream=True))
        rec('altsvc', t.call('advertise_alternative_service', b'h2=":1"', origin=b'example.com'))
        rec('data', t.call('send_data', peer_next, b'body', end_stream=True))
        rec('second-request', t.call('receive_data', wire.build_headers(peer_next + 2, hb(REQ), end_stream=True)))
    return tr
