"""C14 - outbound header blocks are normalised and RFC 7540 section 8.1.2 conformant.

Every successfully emitted block is decoded by a monitor-owned HPACK decoder and
must (a) equal the oracle's form of the input under the active configuration
(normal form: lowercase + stripped names, stripped values, connection-specific
fields dropped, credentials / short cookies never-indexed; or the raw input when
normalisation is off) and (b) satisfy the rules the configuration promises.
"""
import hpack
import h2.exceptions

from .. import core, hdrmodel, scen, wire
from ..scen import REQ, RESP, hb

LEVEL = 'exploration'
RULE = ('each case = one long-lived connection under one of the four normalize/validate outbound configurations sending up to '
        '14 header blocks (request, response, informational, trailers, push), each built from a valid base with 0-3 grammar '
        'mutations: mixed-case names, surrounding SP/HTAB, str or bytes, tuple/HeaderTuple/NeverIndexedHeaderTuple, all special '
        'field names, duplicates, reorderings, 19/20/21-byte cookies; after a refused call the next block (same or another kind) is often '
        'sent at the very same position, where it is still judged as the first block of that kind; non-trivial = block emitted and compared or refusal '
        'judged; distinct = hash of (config, kind, input list)')
MINIMA = {'emitted_blocks_compared': 8000, 'refusals_seen': 1500, 'never_indexed_fields_checked': 1500,
          'nonconformant_inputs_judged': 1500, 'tidy_inputs_accepted': 2000, 'blocks_at_the_position_of_a_refused_call': 1000}


def n_cases(tier):
    return 5000 if tier == 'quick' else 300000


SPECIAL = [b'connection', b'proxy-connection', b'keep-alive', b'transfer-encoding', b'upgrade', b'te', b'host', b'cookie',
           b'authorization', b'proxy-authorization', b'x-token', b'accept']


def base_headers(rng, kind):
    if kind in ('request', 'push'):
        h = [(b':method', rng.choice([b'GET', b'POST'])), (b':scheme', b'https'), (b':authority', b'example.com'),
             (b':path', rng.choice([b'/', b'/a?b=c']))]
        rng.shuffle(h)
    elif kind == 'response':
        h = [(b':status', rng.choice([b'200', b'404']))]
    elif kind == 'informational':
        h = [(b':status', rng.choice([b'100', b'103']))]
    else:
        h = []
    for _ in range(rng.randrange(0, 3)):
        h.append((rng.choice([b'x-a', b'accept', b'user-agent', b'etag']), rng.choice([b'1', b'*/*', b'abc def'])))
    return h


def ws(rng, b):
    pre = rng.choice([b'', b'', b' ', b'\t', b'  ', b'\n', b'\r\n ', b'\x0b', b'\x0c'])
    post = rng.choice([b'', b'', b' ', b'\t', b' \t', b'\r\n', b'\n', b'\x0c', b' \x0b'])
    return pre + b + post


def mutate(rng, kind, h):
    m = rng.randrange(16)
    rs = next((i for i, (n, _) in enumerate(h) if not n.startswith(b':')), len(h))
    pos = rng.randrange(rs, len(h) + 1)
    if m == 0:
        i = rng.randrange(len(h)) if h else None
        if i is not None:
            n, v = h[i]
            h[i] = (n.upper() if rng.random() < 0.5 else n.title(), v)
        return 'case'
    if m == 1:
        if h:
            i = rng.randrange(len(h))
            h[i] = (ws(rng, h[i][0]), ws(rng, h[i][1]))
        return 'whitespace'
    if m == 2:
        h.insert(pos, (rng.choice([b'connection', b'proxy-connection', b'keep-alive', b'transfer-encoding', b'upgrade',
                                   b'Connection', b' upgrade']), rng.choice([b'close', b'chunked'])))
        return 'connection-specific'
    if m == 3:
        h.insert(pos, (rng.choice([b'te', b'TE']), rng.choice([b'trailers', b'gzip', b'trailers ', b' trailers', b'deflate'])))
        return 'te'
    if m == 4:
        size = rng.choice([0, 5, 18, 19, 20, 21, 40])
        val = (b'k=' + b'v' * 64)[:size]
        if rng.random() < 0.3:
            val = ws(rng, val)
        h.insert(pos, (rng.choice([b'cookie', b'Cookie', b' cookie']), val))
        return 'cookie'
    if m == 5:
        h.insert(pos, (rng.choice([b'authorization', b'proxy-authorization', b'Authorization', b' authorization', b'authorization ']),
                       rng.choice([b'Basic dXNlcjpwYXNz', b'Bearer ' + b't' * 30])))
        return 'credentials'
    if m == 6:
        ps = [x for x in h if x[0].startswith(b':')]
        if ps:
            h.insert(rng.randrange(0, rs + 1), rng.choice(ps))
        return 'dup-pseudo'
    if m == 7:
        h.append((rng.choice([b':path', b':status', b':method']), rng.choice([b'/', b'200', b'GET'])))
        return 'pseudo-late'
    if m == 8:
        h.insert(rng.randrange(0, rs + 1), (rng.choice([b':unknown', b':x']), b'v'))
        return 'unknown-pseudo'
    if m == 9:
        h.insert(rng.randrange(0, rs + 1), rng.choice([(b':status', b'200'), (b':path', b'/'), (b':method', b'GET'), (b':scheme', b'http')]))
        return 'wrong-role-pseudo'
    if m == 10:
        ps = [i for i, x in enumerate(h) if x[0].startswith(b':')]
        if ps:
            h.pop(rng.choice(ps))
        return 'drop-required'
    if m == 11:
        h.insert(pos, (rng.choice([b'host', b'Host']), rng.choice([b'example.com', b'other.example', b'', b' example.com'])))
        return 'host'
    if m == 12:
        h[:] = [(n, rng.choice([b'', b' '])) if n == b':path' else (n, v) for n, v in h]
        return 'empty-path'
    if m == 13:
        h[:] = [(n, rng.choice([b'', b' '])) if n == b':authority' else (n, v) for n, v in h]
        if rng.random() < 0.6:
            h.insert(pos, (b'host', rng.choice([b'example.com', b''])))
        return 'empty-authority'
    if m == 14:
        if h:
            i = rng.randrange(len(h))
            h.insert(pos, h[i]) if not h[i][0].startswith(b':') else None
        return 'dup-regular'
    rng.shuffle(h)
    return 'shuffle'


def wrap(rng, h):
    """Vary the Python types of the input: bytes/str, tuple / HeaderTuple / NeverIndexedHeaderTuple."""
    out = []
    for n, v in h:
        if rng.random() < 0.3:
            try:
                n2, v2 = n.decode('ascii'), v.decode('ascii')
                n, v = n2, v2
            except UnicodeDecodeError:
                pass
        r = rng.random()
        if r < 0.7:
            out.append((n, v))
        elif r < 0.85:
            out.append(hpack.HeaderTuple(n, v))
        else:
            out.append(hpack.NeverIndexedHeaderTuple(n, v))
    return out


def run_case(idx, rng, tier, rep):
    e_client = rng.random() < 0.5
    cfg = dict(normalize_outbound_headers=rng.random() < 0.7, validate_outbound_headers=rng.random() < 0.75)
    h = scen.Hostile(e_client, cfg=cfg, keep_log=True)
    t = h.t
    t.scramble = rng.random() < 0.5      # the application reuses its header lists as soon as a call has returned
    h.mdec.max_allowed_table_size = 2 ** 20
    retry = None
    for _ in range(rng.randrange(4, 15)):
        kind = rng.choice(['request', 'request', 'trailers'] if e_client else ['response', 'response', 'informational', 'trailers', 'push'])
        again = None
        if retry is not None and rng.random() < 0.6:
            # a refused call sent nothing: the next block at the same position is still the same kind of block
            again, retry = retry, None
            kind = again[0]
            if kind in ('response', 'informational'):
                kind = rng.choice(['response', 'response', 'informational'])
            rep.count('blocks_at_the_position_of_a_refused_call')
        retry = None
        base = base_headers(rng, kind)
        if again is not None and rng.random() < 0.3:
            other = rng.choice(['trailers', 'response', 'request'])      # a block of another kind at this position
            base = base_headers(rng, other)
        muts = []
        if again is not None and other_kind(base, kind):
            muts.append('block-of-another-kind')
        r = rng.random()
        if r > 0.25:
            for _ in range(rng.choice([1, 1, 2, 3])):
                muts.append(mutate(rng, kind, base))
        inp = wrap(rng, base)
        # position set-up
        es = False
        if again is not None:
            call = again[1][:-1] + (inp,)
            es = again[2] if kind != 'informational' else False
            if kind == 'response' and again[0] == 'informational':
                es = rng.random() < 0.5
        elif kind == 'request':
            sid = h.e_next
            h.e_next += 2
            es = rng.random() < 0.5
            call = ('send_headers', sid, inp)
        elif kind == 'trailers':
            if e_client:
                sid, r0 = h.e_request(headers=scen.REQ_POST)
            else:
                sid, r0 = h.peer_request()
                r0 = t.call('send_headers', sid, RESP) if r0.ok else r0
                if r0.ok:
                    feed_monitor(h, r0)
            if not r0.ok:
                return
            if e_client:
                feed_monitor(h, r0)
            es = True
            call = ('send_headers', sid, inp)
        elif kind in ('response', 'informational'):
            sid, r0 = h.peer_request()
            if not r0.ok:
                return
            es = (kind == 'response' and rng.random() < 0.5)
            call = ('send_headers', sid, inp)
        else:
            par, r0 = h.peer_request()
            if not r0.ok:
                return
            pid = h.e_next
            h.e_next += 2
            call = ('push_stream', par, pid, inp)
        if call[0] == 'send_headers':
            res = t.call('send_headers', call[1], call[2], end_stream=es)
        else:
            res = t.call('push_stream', call[1], call[2], call[3])
        w = {'cfg': cfg, 'role': 'client' if e_client else 'server', 'kind': kind, 'input': [(repr(type(x).__name__), x[0], x[1]) for x in inp],
             'mutations': muts, 'log_tail': t.tail_log(2)}
        okind = {'push': 'request', 'informational': 'response'}.get(kind, kind)
        want = hdrmodel.normal_form(inp) if cfg['normalize_outbound_headers'] else hdrmodel.raw_form(inp)
        verdict, reason = hdrmodel.conformant(okind, [(n, v) for n, v, _ in want],
                                              check_case_and_ws=cfg['normalize_outbound_headers'])
        if kind == 'informational' and not looks_informational(want):
            # the mutation turned it into something else (status dropped / reordered): message-rule territory, skip
            feed_monitor(h, res)
            continue
        sig = (tuple(sorted(cfg.items())), kind, tuple((repr(type(x).__name__), x[0], x[1]) for x in inp))
        if again is not None:
            w['after_refused_call_at_same_position'] = True
        if res.exc is not None:
            if not isinstance(res.exc, h2.exceptions.ProtocolError):
                rep.violation('C14:' + core.exc_key(res.exc), 'header call raised %r' % res.exc, w)
                return
            retry = (kind, call, es)
            rep.count('refusals_seen')
            rep.nontrivial(sig)
            if res.frames:
                rep.violation('C14:refused-call-emitted', 'refused call emitted %s' % [f.name for f in res.frames], w)
                return
            if not muts and cfg['validate_outbound_headers']:
                rep.violation('C14:tidy-input-refused:%s' % kind, 'a plainly valid %s header list was refused: %s' % (kind, res.exc), w)
                return
            if verdict is True:
                rep.count('over_refusal')
            elif verdict is False:
                rep.count('nonconformant_inputs_judged')
            continue
        blocks = h.decode_blocks(res.frames)
        if len(blocks) != 1 or isinstance(blocks[0][1], Exception):
            rep.violation('C14:emitted-block-undecodable', 'monitor decoder: %r' % (blocks[0][1] if blocks else 'no block'), w)
            return
        rep.nontrivial(sig)
        if not muts:
            rep.count('tidy_inputs_accepted')
        got = decode_with_flags(h, res.frames)
        rep.count('emitted_blocks_compared')
        gotnv = [(n, v) for n, v, _ in got]
        wantnv = [(n, v) for n, v, _ in want]
        if gotnv != wantnv:
            k = next((i for i, (a, b) in enumerate(zip(gotnv, wantnv)) if a != b), min(len(gotnv), len(wantnv)))
            rep.violation('C14:emitted-block-differs-from-%s-form' % ('normal' if cfg['normalize_outbound_headers'] else 'raw'),
                          'emitted field %d: %r, expected %r' % (k, gotnv[k:k + 1], wantnv[k:k + 1]), w)
            return
        for (n, v, never_got), (_, _, never_want) in zip(got, want):
            if never_want or never_got:
                rep.count('never_indexed_fields_checked')
            if v == b'' and n in (b'cookie', b'authorization', b'proxy-authorization'):
                continue      # exact match of an HPACK static-table entry is sent as an index: nothing to protect
            auto = cfg['normalize_outbound_headers'] and (n in (b'authorization', b'proxy-authorization') or
                                                          (n == b'cookie' and len(v) < 20))
            if never_want and not auto:
                # only the caller asked for never-indexing: hpack sends perfect table matches as an index
                if not never_got:
                    rep.count('user_marked_field_sent_indexed')   # perfect table matches are sent as an index by hpack
                continue
            if never_want and not never_got:
                rep.violation('C14:sensitive-field-indexable:%s' % (n if n in (b'cookie', b'authorization', b'proxy-authorization') else b'user-marked').decode(),
                              'field %r emitted indexable, expected never-indexed' % n, w)
                return
            if never_got and not never_want:
                rep.violation('C14:field-unexpectedly-never-indexed', 'field %r emitted never-indexed' % n, w)
                return
        if cfg['validate_outbound_headers']:
            if verdict is False:
                rep.count('nonconformant_inputs_judged')
                rep.violation('C14:nonconformant-block-emitted:%s:%s' % (kind, reason),
                              'emitted %s block violates 8.1.2 (%s): %r' % (kind, reason, gotnv[:8]), w)
                return
            if verdict is None:
                rep.count('undetermined:' + reason)
        if len(rep.samples) < 3 and muts and idx % 89 == 0:
            rep.sample({'cfg': cfg, 'kind': kind, 'input': w['input'], 'emitted': got})
    # refusals counted as judged non-conformant inputs too
    return


def other_kind(base, kind):
    ps = sorted(n for n, _ in base if n.startswith(b':'))
    if kind in ('request', 'push'):
        return len(ps) != 4
    if kind in ('response', 'informational'):
        return ps != [b':status']
    return bool(ps)


def looks_informational(want):
    for n, v, _ in want:
        if not n.startswith(b':'):
            return False
        if n == b':status':
            return v.startswith(b'1')
    return False


def feed_monitor(h, res):
    """Keep the monitor decoder in sync with blocks emitted by set-up calls."""
    if res is not None and res.frames:
        h.decode_blocks(res.frames)


def decode_with_flags(h, frames):
    # decode_blocks already consumed the block (decoder state advanced); re-decode statelessly is impossible, so
    # decode_blocks keeps the last decoded HeaderTuple objects
    return [(bytes(n), bytes(v), never) for n, v, never in h.last_decoded_flags]
