"""C01 - two h2 endpoints exchange every successful send faithfully.

A real client and a real server are joined by two byte pipes (duet).  A seeded
program issues public API calls on either side - mostly calls the endpoint's
own state permits, some that must fail - and a scheduler delivers arbitrary
prefixes of either pipe (1 byte ... everything) at arbitrary points.

Oracle (call-level truth, not the wire): every *successful* sending call is
turned into a logical message with the byte offset at which its output ends in
the pipe.  A message has arrived when the receive_data call that delivers its
last byte returns.  At arrival the receiver's own view of the stream (a small
RFC 7540 5.1 model driven by that endpoint's calls and earlier arrivals) says
which events must come out: RequestReceived / ResponseReceived /
InformationalResponseReceived / TrailersReceived with the documented normal
form of the sent header list, DataReceived with the exact bytes and
flow-controlled length, StreamEnded, StreamReset with code, PushedStreamReceived,
PingReceived, PriorityUpdated, RemoteSettingsChanged, WindowUpdated,
ConnectionTerminated - or nothing when the receiver had already reset the
stream (frames racing a reset).  Frames an endpoint emits on its own inside
receive_data or acknowledge_received_data (SETTINGS ACK, PING ACK, WINDOW_UPDATE,
RST_STREAM, GOAWAY) are predicted from the emitted frames themselves.  After
every receive_data the returned event list must equal the concatenation of the
predictions for all messages that arrived in that call, and receive_data must
not raise on an endpoint that has not itself closed the connection.  Calls
that raise must contribute no bytes.
"""
import h2.exceptions

from .. import core, duet, wire, hdrmodel

LEVEL = 'exploration'
RULE = ('random duet programs of 20-160 steps on plain and h2c-upgraded connections, receive-side header_encoding / inbound normalisation varied per endpoint: requests, informational / final responses, DATA with and without padding, trailers, END_STREAM, resets, '
        'pushes and pushed responses, pings, PRIORITY, SETTINGS changes (up to three frames in flight per endpoint) racing traffic, manual and automatic '
        'window updates, deliberately failing calls, GOAWAY; delivery of random-length prefixes of either pipe between steps; non-trivial = at '
        'least 10 messages arrived and were compared, with at least one mid-frame chunk boundary; distinct = hash of the op list')
MINIMA = {'messages_arrived_and_compared': 100000, 'receive_calls_compared': 60000, 'mid_frame_deliveries': 10000, 'failing_calls_checked_silent': 5000,
          'msg:headers:request': 5000, 'msg:headers:final': 3000, 'msg:headers:informational': 300, 'msg:headers:trailers': 500, 'msg:data': 8000,
          'msg:rst': 1000, 'msg:push': 500, 'msg:ping': 1000, 'msg:priority': 500, 'msg:settings': 1000, 'msg:window_update': 2000,
          'msg:goaway': 100, 'msg:altsvc': 300, 'auto:settings_ack': 1000, 'auto:ping_ack': 1000, 'auto:window_update': 300,
          'arrived_on_locally_reset_stream_expect_silence': 300, 'upgraded_starts': 1000, 'preludes_frame_size_change_around_a_promise': 300, 'settings_in_flight_while_traffic_arrives': 1000, 'settings_frames_overlapping_in_flight': 500}
EXHAUSTIVE = {}

TOKENS = [b'x-a', b'X-Mixed-Case', b'accept', b'user-agent', b'cookie', b'cookie', b'content-type', b'etag', b'authorization', b'x-long-header-name']
VALUES = [b'', b'1', b'v', b' padded\t', b'text/html', b'a=b', b'0123456789' * 3, b'*/*', b'a-rather-long-cookie-value-of-more-than-20']


def n_cases(tier):
    return 20000 if tier == 'quick' else 400000


def make_headers(rng, kind, tag):
    if kind == 'request':
        h = [(b':method', rng.choice([b'GET', b'POST', b'PUT'])), (b':scheme', rng.choice([b'https', b'http'])),
             (b':authority', rng.choice([b'example.com', b'a.test'])), (b':path', rng.choice([b'/', b'/index.html', b'/a/b?c=d']))]
        rng.shuffle(h)
    elif kind == 'final':
        h = [(b':status', rng.choice([b'200', b'404', b'500']))]
    elif kind == 'informational':
        h = [(b':status', rng.choice([b'100', b'103']))]
    else:
        h = []
    for _ in range(rng.randrange(0, 4)):
        h.append((rng.choice(TOKENS), rng.choice(VALUES)))
    if rng.random() < 0.015:
        # now and then a header block that does not fit one frame (HEADERS + CONTINUATION, cut at whatever MAX_FRAME_SIZE the
        # receiver has announced, also on promised streams)
        h.append((b'x-big', bytes(rng.choice(b'abcdefghijklmnopqrstuvwxyz0123456789') for _ in range(rng.choice([17000, 21000, 33000])))))
    h.append((b'x-tag', str(tag).encode()))
    if rng.random() < 0.1:
        h = [(n.decode('latin-1'), v.decode('latin-1')) for n, v in h]      # str headers are accepted too
    return h


def delivered_form(headers):
    """What goes on the wire: the documented outbound normal form.  What the receiver hands over additionally depends on its own
    normalize_inbound_headers setting (cookie crumbs joined or not): see arrive()."""
    return [(n, v) for n, v, _ in hdrmodel.normal_form(headers)]


class Side(object):
    def __init__(self, name, client):
        self.name = name
        self.client = client
        self.st = {}                    # sid -> stream view
        self.retired = False
        self.unacked_settings = []      # SETTINGS frames of this side still awaiting the peer's ACK
        self.next_id = 1 if client else 2
        self.unacked_data = {}          # sid -> flow-controlled bytes received and not yet acknowledged
        self.poisoned = set()           # streams closed inside the library by a refused local call (known finding)
        self.normalize_inbound = True


def new_stream(by, state):
    return {'state': state, 'by': by, 'closed_by': None, 'sent': 'none', 'recv': 'none'}


def end_local(s):
    s['sent'] = 'done'
    if s['state'] == 'open':
        s['state'] = 'hcl'
    elif s['state'] == 'hcr':
        s['state'], s['closed_by'] = 'closed', 'end'


def end_remote(s):
    s['recv'] = 'done'
    if s['state'] == 'open':
        s['state'] = 'hcr'
    elif s['state'] == 'hcl':
        s['state'], s['closed_by'] = 'closed', 'end'


def ev(name, **kw):
    return (name, kw)


def arrive(Y, m, rep):
    """Expected events at Y for message m, updating Y's stream view."""
    k = m['k']
    if 'headers' in m and not m.get('_delivered'):
        m = dict(m)
        m['headers'] = hdrmodel.inbound_delivery(m['headers'], Y.normalize_inbound)
        m['_delivered'] = True
    if k == 'headers':
        sid = m['sid']
        s = Y.st.get(sid)
        hk = m['hkind']
        out = []
        if hk == 'request':
            if s is not None:
                return None
            s = Y.st[sid] = new_stream('P', 'open')
            s['recv'] = 'final'
            out.append(ev('RequestReceived', stream_id=sid, headers=m['headers']))
        else:
            if s is None:
                return None
            if s['state'] == 'closed':
                if s['closed_by'] == 'rst_sent':
                    rep.count('arrived_on_locally_reset_stream_expect_silence')
                    return []
                return None
            if hk == 'informational':
                out.append(ev('InformationalResponseReceived', stream_id=sid, headers=m['headers']))
            elif hk == 'final':
                if s['state'] == 'resr':
                    s['state'] = 'hcl'
                s['recv'] = 'final'
                out.append(ev('ResponseReceived', stream_id=sid, headers=m['headers']))
            else:
                out.append(ev('TrailersReceived', stream_id=sid, headers=m['headers']))
        if m['es']:
            out.append(ev('StreamEnded', stream_id=sid))
            end_remote(s)
        if m.get('prio'):
            dep, excl, weight = m['prio']
            out.append(ev('PriorityUpdated', stream_id=sid, depends_on=dep, exclusive=excl, weight=weight))
        return out
    if k == 'data':
        sid = m['sid']
        s = Y.st.get(sid)
        if s is None:
            return None
        if s['state'] == 'closed':
            if s['closed_by'] == 'rst_sent':
                rep.count('arrived_on_locally_reset_stream_expect_silence')
                return []
            return None
        out = [ev('DataReceived', stream_id=sid, data=m['data'], flow_controlled_length=m['fcl'])]
        Y.unacked_data[sid] = Y.unacked_data.get(sid, 0) + m['fcl']
        if m['es']:
            out.append(ev('StreamEnded', stream_id=sid))
            end_remote(s)
        return out
    if k == 'rst':
        sid = m['sid']
        s = Y.st.get(sid)
        if s is None:
            return None
        if s['state'] == 'closed':
            return []
        s['state'], s['closed_by'] = 'closed', 'rst_recv'
        return [ev('StreamReset', stream_id=sid, error_code=m['code'], remote_reset=True)]
    if k == 'push':
        par = Y.st.get(m['parent'])
        if par is None:
            return None
        if par['state'] == 'closed':
            if par['closed_by'] == 'rst_sent':
                # refused automatically: the promised stream counts as reset by Y
                s = Y.st[m['promised']] = new_stream('P', 'closed')
                s['closed_by'] = 'rst_sent'
                rep.count('arrived_on_locally_reset_stream_expect_silence')
                return []
            return None
        Y.st[m['promised']] = new_stream('P', 'resr')
        return [ev('PushedStreamReceived', parent_stream_id=m['parent'], pushed_stream_id=m['promised'], headers=m['headers'])]
    if k == 'ping':
        return [ev('PingReceived', ping_data=m['data'])]
    if k == 'ping_ack':
        return [ev('PingAckReceived', ping_data=m['data'])]
    if k == 'priority':
        return [ev('PriorityUpdated', stream_id=m['sid'], depends_on=m['dep'], exclusive=m['excl'], weight=m['weight'])]
    if k == 'settings':
        return [ev('RemoteSettingsChanged', changed_new_values=sorted(m['values'].items()))]
    if k == 'settings_ack':
        if not Y.unacked_settings:
            return None
        vals = Y.unacked_settings.pop(0)
        return [ev('SettingsAcknowledged', changed_keys=sorted(vals))]
    if k == 'window_update':
        sid = m['sid']
        if sid != 0:
            s = Y.st.get(sid)
            if s is None:
                return None
            if s['state'] == 'closed':
                return []
        return [ev('WindowUpdated', stream_id=sid, delta=m['inc'])]
    if k == 'altsvc':
        return [ev('AlternativeServiceAvailable', origin=m['origin'], field_value=m['field'])]
    if k == 'goaway':
        Y.retired = True
        return [ev('ConnectionTerminated', error_code=m['code'], last_stream_id=m['last'], additional_data=m['data'])]
    raise ValueError(k)


def actual_form(e):
    name = type(e).__name__
    d = {}
    if name in ('RequestReceived', 'ResponseReceived', 'InformationalResponseReceived', 'TrailersReceived'):
        d = {'stream_id': e.stream_id, 'headers': core.canon_headers(e.headers)}
    elif name == 'DataReceived':
        d = {'stream_id': e.stream_id, 'data': bytes(e.data), 'flow_controlled_length': e.flow_controlled_length}
    elif name == 'StreamEnded':
        d = {'stream_id': e.stream_id}
    elif name == 'StreamReset':
        d = {'stream_id': e.stream_id, 'error_code': int(e.error_code), 'remote_reset': e.remote_reset}
    elif name == 'PushedStreamReceived':
        d = {'parent_stream_id': e.parent_stream_id, 'pushed_stream_id': e.pushed_stream_id, 'headers': core.canon_headers(e.headers)}
    elif name in ('PingReceived', 'PingAckReceived'):
        d = {'ping_data': bytes(e.ping_data)}
    elif name == 'PriorityUpdated':
        d = {'stream_id': e.stream_id, 'depends_on': e.depends_on, 'exclusive': bool(e.exclusive), 'weight': e.weight}
    elif name == 'RemoteSettingsChanged':
        d = {'changed_new_values': sorted((int(k), int(v.new_value)) for k, v in e.changed_settings.items())}
    elif name == 'SettingsAcknowledged':
        d = {'changed_keys': sorted(int(k) for k in e.changed_settings)}
    elif name == 'WindowUpdated':
        d = {'stream_id': e.stream_id, 'delta': e.delta}
    elif name == 'AlternativeServiceAvailable':
        d = {'origin': e.origin, 'field_value': e.field_value}
    elif name == 'ConnectionTerminated':
        d = {'error_code': int(e.error_code), 'last_stream_id': e.last_stream_id, 'additional_data': e.additional_data or b''}
    else:
        d = {'repr': repr(e)}
    return (name, d)


def run_case(idx, rng, tier, rep):
    # receive-side configuration varies per endpoint: decoded (str) or raw (bytes) header text, cookie crumbs joined or not
    cfgs = {}
    for name in ('c', 's'):
        cfgs[name] = {'header_encoding': rng.choice([None, None, 'utf-8']), 'normalize_inbound_headers': rng.random() < 0.8}
    d = duet.Duet(ccfg=cfgs['c'], scfg=cfgs['s'])
    d.c.watch_events = d.s.watch_events = True
    # half of the applications reuse the lists, dicts and buffers they pass in as soon as the call has returned
    d.c.scramble = d.s.scramble = rng.random() < 0.5
    upgraded = rng.random() < 0.12
    if upgraded:
        # h2c upgrade: stream 1 exists from the start, half-closed (local) at the client and half-closed (remote) at the server
        r = d.call('c', 'initiate_upgrade_connection')
        if r.exc is None:
            r = d.call('s', 'initiate_upgrade_connection', r.value)
        if r.exc is not None:
            rep.violation('C01:upgrade-raises:' + core.exc_key(r.exc), repr(r.exc))
            return
        d.settle()
        rep.count('upgraded_starts')
    else:
        d.handshake()
    if d.errors:
        rep.violation('C01:handshake-raises:' + core.exc_key(d.errors[0][1]), repr(d.errors[0][1]))
        return
    sides = {'c': Side('c', True), 's': Side('s', False)}
    for name in ('c', 's'):
        sides[name].normalize_inbound = cfgs[name]['normalize_inbound_headers']
    if upgraded:
        cs = sides['c'].st[1] = new_stream('E', 'hcl')
        cs['sent'] = 'done'
        ss = sides['s'].st[1] = new_stream('P', 'hcr')
        ss['recv'] = 'done'
        sides['c'].next_id = 3
    queue = {'c2s': [], 's2c': []}          # messages in flight, in byte order: dicts with 'end'
    ops = []
    st = {'alive': True, 'compared': 0, 'midframe': 0, 'tag': 0}

    def other(x):
        return 's' if x == 'c' else 'c'

    def witness(extra=None):
        w = {'ops': [str(o) for o in ops[-18:]], 'client_log_tail': d.c.tail_log(3), 'server_log_tail': d.s.tail_log(3),
             'views': {n: {str(k): '%s/%s' % (v['state'], v['closed_by']) for k, v in sorted(S.st.items())} for n, S in sides.items()}}
        if extra:
            w.update(extra)
        return w

    def fail(key, what, extra=None):
        rep.violation(key, what, witness(extra))
        st['alive'] = False

    def enqueue(x, msg):
        dirn = d.out_dir(x)
        msg['end'] = d.sent[dirn]
        queue[dirn].append(msg)
        rep.count('msg:' + msg['k'] + ((':' + msg['hkind']) if msg['k'] == 'headers' else ''))

    def enqueue_auto(x, frames, origin):
        """Frames X emitted on its own (inside receive_data / acknowledge_received_data)."""
        dirn = d.out_dir(x)
        for f in frames:
            if f.type == wire.SETTINGS and f.ack:
                m = {'k': 'settings_ack'}
            elif f.type == wire.PING and f.ack:
                m = {'k': 'ping_ack', 'data': f.opaque}
            elif f.type == wire.WINDOW_UPDATE:
                m = {'k': 'window_update', 'sid': f.stream_id, 'inc': f.increment}
            elif f.type == wire.RST_STREAM:
                m = {'k': 'rst', 'sid': f.stream_id, 'code': f.error_code}
                # X reset the stream on its own: its view changes like after reset_stream
                s = sides[x].st.get(f.stream_id)
                if s is None:
                    s = sides[x].st[f.stream_id] = new_stream('P', 'closed')
                s['state'], s['closed_by'] = 'closed', 'rst_sent'
            elif f.type == wire.GOAWAY:
                m = {'k': 'goaway', 'code': f.error_code, 'last': f.last_stream_id, 'data': f.debug or b''}
            else:
                fail('C01:unexpected-automatic-frame:%s:%s' % (origin, f.name), 'frame %r emitted by %s' % (f.brief(), origin))
                return
            m['end'] = f.end
            m['auto'] = True
            queue[dirn].append(m)
            rep.count('auto:' + m['k'])

    def poison_check(x, sid, res, op):
        """After a refused call: did the library close the stream / the connection although nothing was sent?"""
        X = sides[x]
        conn = d.tap(x).c
        cstate = getattr(getattr(getattr(conn, 'state_machine', None), 'state', None), 'name', None)
        if cstate == 'CLOSED' and not X.retired:
            fail('C01:refused-local-call-closed-the-connection',
                 '%s raised %r, emitted nothing, and left the connection state machine CLOSED (no GOAWAY was sent)' % (op, res.exc))
            return
        if sid is not None and sid in X.st and X.st[sid]['state'] != 'closed':
            sobj = getattr(conn, 'streams', {}).get(sid)
            sstate = getattr(getattr(getattr(sobj, 'state_machine', None), 'state', None), 'name', None)
            if sobj is None or sstate == 'CLOSED':
                X.poisoned.add(sid)
                fail('C01:refused-local-call-closed-the-stream',
                     '%s on stream %d raised %r, emitted nothing, and left the stream closed inside the library while it is %s for the peer' %
                     (op, sid, res.exc, X.st[sid]['state']))

    def call(x, op, *args, **kw):
        res = d.call(x, op, *args, **kw)
        return res

    def failing(x, res, op, sid=None):
        """A call that was meant to fail (or failed): it must be silent."""
        rep.count('failing_calls_checked_silent')
        if res.out:
            fail('C01:raising-call-emitted-bytes:%s' % op, '%s raised %r and emitted %s' % (op, res.exc, [f.brief() for f in res.frames]))
            return
        if not isinstance(res.exc, (h2.exceptions.H2Error, ValueError, TypeError)):
            fail('C01:raising-call-unexpected-exception:%s:%s' % (op, core.exc_key(res.exc)), repr(res.exc))
            return
        poison_check(x, sid, res, op)

    def unexpected_raise(x, res, op, sid=None):
        """The model held the call to be permitted.  Limits the model does not track are fine; anything else ends the case."""
        if isinstance(res.exc, (h2.exceptions.FlowControlError, h2.exceptions.TooManyStreamsError)):
            rep.count('permitted_call_hit_a_resource_limit')
            failing(x, res, op, sid)
            return
        rep.count('undetermined:model-permitted-call-raised')
        rep.observe('model_permitted_call_raised', '%s:%s' % (op, type(res.exc).__name__))
        failing(x, res, op, sid)
        st['alive'] = False

    # ------------------------------------------------------------------ delivery and comparison
    def deliver(dirn, n=None):
        y = 's' if dirn == 'c2s' else 'c'
        Y = sides[y]
        if Y.retired:
            # an endpoint that has closed the connection is exempt: drop what is addressed to it
            d.pipe[dirn].clear()
            queue[dirn][:] = []
            return
        if not d.pipe[dirn]:
            return
        before = d.delivered[dirn]
        res = d.deliver(dirn, n)
        after = d.delivered[dirn]
        arrived = []
        while queue[dirn] and queue[dirn][0]['end'] <= after:
            arrived.append(queue[dirn].pop(0))
        if queue[dirn] and after != before:
            # does the chunk end inside a frame?
            st['midframe'] += 1
            rep.count('mid_frame_deliveries')
        if Y.unacked_settings or sides[other(y)].unacked_settings:
            if arrived:
                rep.count('settings_in_flight_while_traffic_arrives')
        if res.exc is not None:
            if Y.poisoned:
                fail('C01:receive-raised-after-refused-local-call-closed-a-stream', repr(res.exc))
            else:
                detail = ':table-size-update-above-the-limit-in-force' if 'max allowable table size' in str(res.exc) else ''
                fail('C01:receive-raised:%s%s' % (core.exc_key(res.exc), detail),
                     '%s.receive_data raised %r although it had not closed the connection; arriving messages: %s' %
                     (y, res.exc, [{k: v for k, v in m.items() if k != 'headers'} for m in arrived[:4]]))
            return
        expected = []
        for m in arrived:
            e = arrive(Y, m, rep)
            if e is None:
                rep.count('undetermined:arrival-the-model-cannot-place')
                rep.observe('unplaceable', m['k'])
                st['alive'] = False
                return
            expected.extend(e)
            rep.count('messages_arrived_and_compared')
            st['compared'] += 1
        got = [actual_form(e) for e in res.events]
        rep.count('receive_calls_compared')
        if got != expected:
            # locate the first difference
            i = 0
            while i < min(len(got), len(expected)) and got[i] == expected[i]:
                i += 1
            g = got[i] if i < len(got) else None
            e = expected[i] if i < len(expected) else None
            kind = '%s-instead-of-%s' % (g[0] if g else 'nothing', e[0] if e else 'nothing')
            if g and e and g[0] == e[0]:
                diff = [k for k in e[1] if g[1].get(k) != e[1][k]]
                kind = '%s-differs-in-%s' % (g[0], '+'.join(diff))
            fail('C01:events-differ:%s' % kind,
                 'receiver %s: event #%d is %r, the sender\'s calls imply %r' % (y, i, g, e),
                 {'got': [repr(x)[:300] for x in got[max(0, i - 2):i + 3]], 'expected': [repr(x)[:300] for x in expected[max(0, i - 2):i + 3]]})
            return
        # automatic frames Y produced while receiving
        if res.frames:
            enqueue_auto(y, res.frames, 'receive_data')
        if any(f.type == wire.GOAWAY for f in res.frames):
            Y.retired = True

    # ------------------------------------------------------------------ operations of one endpoint
    def tag():
        st['tag'] += 1
        return st['tag']

    def sendable(s):
        return s['state'] in ('open', 'hcr')

    def announce_length(h, es):
        """Now and then the message announces its body length: the sender then sends exactly that many octets of DATA payload
        (padding does not count), and the receiver must take them."""
        if rng.random() >= 0.15:
            return None
        n = 0 if es else rng.choice([0, 3, 40, 1500, 20000])
        text = isinstance(h[0][0], str)
        h.insert(len(h) - 1, ('content-length', str(n)) if text else (b'content-length', str(n).encode()))
        rep.count('messages_announcing_their_length')
        return n

    def op_request(x):
        X = sides[x]
        if not X.client:
            return False
        sid = X.next_id
        es = rng.random() < 0.35
        h = make_headers(rng, 'request', tag())
        cl = announce_length(h, es)
        kw = {}
        prio = None
        if rng.random() < 0.15:
            dep = rng.choice([0, 0, sid - 2 if sid > 2 else 0, sid + 2])
            excl = rng.random() < 0.5
            weight = rng.randrange(1, 257)
            kw = {'priority_weight': weight, 'priority_depends_on': dep, 'priority_exclusive': excl}
            prio = (dep, excl, weight)
        ops.append((x, 'send_headers', sid, 'request', es, 'prio' if prio else ''))
        r = call(x, 'send_headers', sid, h, end_stream=es, **kw)
        if r.exc is not None:
            unexpected_raise(x, r, 'send_headers(request)')
            return True
        X.next_id += 2
        s = X.st[sid] = new_stream('E', 'open')
        s['sent'] = 'final'
        s['cl'] = cl
        if es:
            end_local(s)
        enqueue(x, {'k': 'headers', 'sid': sid, 'hkind': 'request', 'headers': delivered_form(h), 'es': es, 'prio': prio})
        return True

    def pick(X, pred):
        c = [sid for sid, s in sorted(X.st.items()) if pred(sid, s) and sid not in X.poisoned]
        return rng.choice(c) if c else None

    def op_respond(x):
        X = sides[x]
        if X.client:
            return False
        sid = pick(X, lambda i, s: s['sent'] == 'none' and (sendable(s) and s['by'] == 'P' or s['state'] == 'resl'))
        if sid is None:
            return False
        s = X.st[sid]
        info = s['state'] != 'resl' and rng.random() < 0.2
        es = (not info) and rng.random() < 0.35
        h = make_headers(rng, 'informational' if info else 'final', tag())
        cl = None if info else announce_length(h, es)
        ops.append((x, 'send_headers', sid, 'informational' if info else 'final', es))
        r = call(x, 'send_headers', sid, h, end_stream=es)
        if r.exc is not None:
            unexpected_raise(x, r, 'send_headers(response)', sid)
            return True
        if not info:
            if s['state'] == 'resl':
                s['state'] = 'hcr'
            s['sent'] = 'final'
            s['cl'] = cl
            if es:
                end_local(s)
        enqueue(x, {'k': 'headers', 'sid': sid, 'hkind': 'informational' if info else 'final', 'headers': delivered_form(h), 'es': es})
        return True

    def op_data(x):
        X = sides[x]
        sid = pick(X, lambda i, s: sendable(s) and s['sent'] == 'final')
        if sid is None:
            return False
        conn = d.tap(x).c
        try:
            win = conn.local_flow_control_window(sid)
            mfs = conn.max_outbound_frame_size
        except Exception:       # noqa
            return False
        pad = rng.choice([None, None, None, 0, 1, rng.randrange(0, 256)])
        overhead = 0 if pad is None else pad + 1
        room = min(win, mfs) - overhead
        if room < 0:
            return False
        r0 = rng.random()
        n = rng.randrange(0, 40) if r0 < 0.6 else (rng.randrange(0, 2000) if r0 < 0.9 else room)
        n = max(0, min(n, room))
        es = rng.random() < 0.25
        left = X.st[sid].get('cl')
        if left is not None:
            # an announced length: never more than what is left of it, and END_STREAM only with the last octet
            if rng.random() < 0.5:
                n = min(left, room)
            n = min(n, left)
            es = es and n == left
            X.st[sid]['cl'] = left - n
            rep.count('data_frames_of_messages_with_announced_length')
            if pad is not None:
                rep.count('padded_data_frames_of_messages_with_announced_length')
        body = (b'%08d' % tag()) + bytes(rng.getrandbits(8) for _ in range(8)) * (n // 8 + 1)
        body = body[:n]
        ops.append((x, 'send_data', sid, n, pad, es))
        kw = {} if pad is None else {'pad_length': pad}
        r = call(x, 'send_data', sid, body, end_stream=es, **kw)
        if r.exc is not None:
            unexpected_raise(x, r, 'send_data', sid)
            return True
        if es:
            end_local(X.st[sid])
        enqueue(x, {'k': 'data', 'sid': sid, 'data': body, 'fcl': n + overhead, 'es': es})
        return True

    def op_end(x):
        X = sides[x]
        sid = pick(X, lambda i, s: sendable(s) and s['sent'] == 'final' and not s.get('cl'))
        if sid is None:
            return False
        if rng.random() < 0.5:
            ops.append((x, 'end_stream', sid))
            r = call(x, 'end_stream', sid)
            if r.exc is not None:
                unexpected_raise(x, r, 'end_stream', sid)
                return True
            enqueue(x, {'k': 'data', 'sid': sid, 'data': b'', 'fcl': 0, 'es': True})
        else:
            h = make_headers(rng, 'trailers', tag())
            ops.append((x, 'send_headers', sid, 'trailers', True))
            r = call(x, 'send_headers', sid, h, end_stream=True)
            if r.exc is not None:
                unexpected_raise(x, r, 'send_headers(trailers)', sid)
                return True
            enqueue(x, {'k': 'headers', 'sid': sid, 'hkind': 'trailers', 'headers': delivered_form(h), 'es': True})
        end_local(X.st[sid])
        return True

    def op_reset(x):
        X = sides[x]
        sid = pick(X, lambda i, s: s['state'] != 'closed')
        if sid is None:
            return False
        code = rng.choice([0, 2, 7, 8, 11, 0x1234])
        ops.append((x, 'reset_stream', sid, code))
        r = call(x, 'reset_stream', sid, code)
        if r.exc is not None:
            unexpected_raise(x, r, 'reset_stream', sid)
            return True
        X.st[sid]['state'], X.st[sid]['closed_by'] = 'closed', 'rst_sent'
        enqueue(x, {'k': 'rst', 'sid': sid, 'code': code})
        return True

    def op_push(x):
        X = sides[x]
        if X.client:
            return False
        par = pick(X, lambda i, s: sendable(s) and s['by'] == 'P' and i % 2 == 1)
        if par is None:
            return False
        promised = X.next_id
        h = make_headers(rng, 'request', tag())
        ops.append((x, 'push_stream', par, promised))
        r = call(x, 'push_stream', par, promised, h)
        if r.exc is not None:
            unexpected_raise(x, r, 'push_stream', par)
            return True
        X.next_id += 2
        X.st[promised] = new_stream('E', 'resl')
        enqueue(x, {'k': 'push', 'parent': par, 'promised': promised, 'headers': delivered_form(h)})
        return True

    def op_ping(x):
        data = b'%08d' % tag()
        ops.append((x, 'ping'))
        r = call(x, 'ping', data)
        if r.exc is not None:
            unexpected_raise(x, r, 'ping')
            return True
        enqueue(x, {'k': 'ping', 'data': data})
        return True

    def op_priority(x):
        X = sides[x]
        if not X.client:
            return False
        sid = rng.choice(sorted(X.st) + [X.next_id, X.next_id + 4])
        dep = rng.choice([0, 0, sid + 2, max(1, sid - 2)])
        if dep == sid:
            dep = 0
        excl = rng.random() < 0.5
        weight = rng.randrange(1, 257)
        ops.append((x, 'prioritize', sid, dep, excl, weight))
        r = call(x, 'prioritize', sid, weight=weight, depends_on=dep, exclusive=excl)
        if r.exc is not None:
            unexpected_raise(x, r, 'prioritize')
            return True
        enqueue(x, {'k': 'priority', 'sid': sid, 'dep': dep, 'excl': excl, 'weight': weight})
        return True

    def op_settings(x):
        X = sides[x]
        if len(X.unacked_settings) >= 3:
            return False
        if len(X.unacked_settings) >= 1:
            rep.count('settings_frames_overlapping_in_flight')
        choices = {wire.S_HEADER_TABLE_SIZE: [0, 100, 4096, 8192], wire.S_MAX_CONCURRENT_STREAMS: [1, 2, 5, 100],
                   wire.S_INITIAL_WINDOW_SIZE: [0, 100, 1000, 65535, 100000], wire.S_MAX_FRAME_SIZE: [16384, 20000, 65536],
                   wire.S_MAX_HEADER_LIST_SIZE: [65536, 2 ** 20]}
        keys = rng.sample(sorted(choices), rng.randrange(1, 4))
        vals = {k: rng.choice(choices[k]) for k in keys}
        ops.append((x, 'update_settings', sorted(vals.items())))
        r = call(x, 'update_settings', dict(vals))
        if r.exc is not None:
            unexpected_raise(x, r, 'update_settings')
            return True
        X.unacked_settings.append(vals)
        enqueue(x, {'k': 'settings', 'values': vals})
        return True

    def op_window(x):
        X = sides[x]
        sid = pick(X, lambda i, s: s['state'] in ('open', 'hcl'))
        if sid is None or rng.random() < 0.3:
            sid = None
        inc = rng.choice([1, 10, 1000, rng.randrange(1, 5000)])
        ops.append((x, 'increment_flow_control_window', inc, sid))
        r = call(x, 'increment_flow_control_window', inc, sid)
        if r.exc is not None:
            unexpected_raise(x, r, 'increment_flow_control_window', sid)
            return True
        enqueue(x, {'k': 'window_update', 'sid': sid or 0, 'inc': inc})
        return True

    def op_ack(x):
        X = sides[x]
        c = [sid for sid, n in sorted(X.unacked_data.items()) if n > 0 and sid in X.st and sid not in X.poisoned]
        if not c:
            return False
        sid = rng.choice(c)
        n = rng.choice([X.unacked_data[sid], rng.randrange(0, X.unacked_data[sid] + 1)])
        ops.append((x, 'acknowledge_received_data', n, sid))
        r = call(x, 'acknowledge_received_data', n, sid)
        if r.exc is not None:
            unexpected_raise(x, r, 'acknowledge_received_data', sid)
            return True
        X.unacked_data[sid] -= n
        if r.frames:
            enqueue_auto(x, r.frames, 'acknowledge_received_data')
        return True

    def op_altsvc(x):
        X = sides[x]
        if X.client:
            return False
        origin = rng.choice([b'example.com', b'a.test', b'other.example:8443'])
        field = rng.choice([b'h2=":443"', b'h2="alt.example:443"; ma=3600', b'clear'])
        ops.append((x, 'advertise_alternative_service', origin))
        r = call(x, 'advertise_alternative_service', field, origin=origin)
        if r.exc is not None:
            unexpected_raise(x, r, 'advertise_alternative_service')
            return True
        enqueue(x, {'k': 'altsvc', 'origin': origin, 'field': field})
        return True

    def op_goaway(x):
        X = sides[x]
        code = rng.choice([0, 1, 2, 11])
        data = rng.choice([None, b'', b'bye'])
        last = rng.choice([None, None, 0, 1])
        ops.append((x, 'close_connection', code, data, last))
        r = call(x, 'close_connection', code, data, last)
        if r.exc is not None:
            unexpected_raise(x, r, 'close_connection')
            return True
        exp_last = last
        gf = [f for f in r.frames if f.type == wire.GOAWAY]
        if last is None and gf:
            exp_last = gf[0].last_stream_id      # which stream the library names by default is C18's question
        X.retired = True
        enqueue(x, {'k': 'goaway', 'code': code, 'last': exp_last, 'data': data or b''})
        return True

    def op_failing(x):
        """Calls that must raise; they have to be silent and must not disturb anything."""
        X = sides[x]
        conn_ops = ['bad-headers', 'unknown-stream-data', 'too-low-id', 'closed-stream', 'oversize-data', 'bad-settings', 'bad-ping',
                    'zero-increment', 'fsm-refused', 'bad-promised-id', 'bad-promised-id', 'bad-priority']
        k = rng.choice(conn_ops)
        sid = None
        if k == 'bad-headers':
            if X.client:
                sid = X.next_id
                r = call(x, 'send_headers', sid, [(b':method', b'GET'), (b'x-a', b'1')])
                sid = None
            else:
                sid = pick(X, lambda i, s: sendable(s) and s['sent'] == 'none' and s['by'] == 'P')
                if sid is None:
                    return False
                r = call(x, 'send_headers', sid, [(b'x-no-status', b'1')])
        elif k == 'unknown-stream-data':
            r = call(x, 'send_data', X.next_id + 10, b'zz')
        elif k == 'too-low-id':
            if not X.client or X.next_id < 5:
                return False
            # an id below the highest used one that was never used (left out by a refused opening) - nothing else is "too low"
            c = [i for i in range(1, X.next_id, 2) if i not in X.st]
            if not c:
                return False
            r = call(x, 'send_headers', c[0], make_headers(rng, 'request', tag()))
        elif k == 'closed-stream':
            sid0 = pick(X, lambda i, s: s['state'] == 'closed')
            if sid0 is None:
                return False
            r = call(x, 'send_data', sid0, b'zz')
        elif k == 'oversize-data':
            sid = pick(X, lambda i, s: sendable(s) and s['sent'] == 'final')
            if sid is None:
                return False
            try:
                win = d.tap(x).c.local_flow_control_window(sid)
            except Exception:   # noqa
                return False
            if win > 200000:
                return False
            r = call(x, 'send_data', sid, b'z' * (win + 1))
            if isinstance(r.exc, h2.exceptions.FlowControlError) or isinstance(r.exc, h2.exceptions.FrameTooLargeError):
                sid = sid
        elif k == 'bad-promised-id':
            # a push whose header list is fine (and full of fields the peer has not seen yet) but whose promised id is unusable
            if X.client:
                return False
            par = pick(X, lambda i, s: sendable(s) and s['by'] == 'P' and i % 2 == 1)
            if par is None:
                return False
            used = [i for i in X.st if i % 2 == 0]
            bad = rng.choice(used + [X.next_id + 1, 2 ** 31 + 2] if used else [X.next_id + 1, 2 ** 31 + 2])
            r = call(x, 'push_stream', par, bad, make_headers(rng, 'request', tag()) + [(b'x-new-%d' % tag(), b'only-in-the-refused-call')])
            sid = None          # nothing may have changed on the parent either; the stream check below would not apply to a push
        elif k == 'bad-priority':
            if not X.client:
                return False
            nid = X.next_id
            r = call(x, 'send_headers', nid, make_headers(rng, 'request', tag()) + [(b'x-new-%d' % tag(), b'only-in-the-refused-call')],
                     priority_depends_on=nid, priority_weight=rng.choice([1, 300]))
        elif k == 'bad-settings':
            r = call(x, 'update_settings', {wire.S_MAX_CONCURRENT_STREAMS: 7, wire.S_ENABLE_PUSH: 3})
        elif k == 'bad-ping':
            r = call(x, 'ping', b'short')
        elif k == 'zero-increment':
            r = call(x, 'increment_flow_control_window', 0)
        else:
            # refused by the stream state machine: DATA after END_STREAM was sent, or headers on a stream promised to a client
            sid = pick(X, lambda i, s: s['state'] == 'hcl')
            if sid is None or rng.random() < 0.85:
                return False
            r = call(x, 'send_data', sid, b'late')
        ops.append((x, 'failing', k, sid))
        if r.exc is None:
            rep.count('undetermined:call-meant-to-fail-succeeded')
            rep.observe('meant_to_fail_succeeded', k)
            st['alive'] = False
            return True
        failing(x, r, 'failing:' + k, sid)
        return True

    OPS = [(op_request, 10), (op_respond, 10), (op_data, 14), (op_end, 6), (op_reset, 3), (op_push, 3), (op_ping, 3), (op_priority, 2),
           (op_settings, 3), (op_window, 3), (op_altsvc, 1), (op_ack, 6), (op_failing, 7), (op_goaway, 0.25)]
    total_w = sum(w for _, w in OPS)

    def pick_op():
        r = rng.random() * total_w
        for f, w in OPS:
            r -= w
            if r <= 0:
                return f
        return OPS[0][0]

    def settle():
        for _ in range(20):
            if not st['alive'] or not (d.pending('c2s') or d.pending('s2c')):
                break
            deliver('c2s')
            if st['alive']:
                deliver('s2c')

    def prelude_frame_size_change_around_a_promise():
        """The client raises MAX_FRAME_SIZE, the server promises a stream, the client lowers MAX_FRAME_SIZE again, and only then
        does the server start the promised stream - with a header block that needs several frames under the lower limit."""
        C, S = sides['c'], sides['s']
        sid = C.next_id
        steps = [('c', 'update_settings', {wire.S_MAX_FRAME_SIZE: rng.choice([32768, 65536])})]
        for x, op, vals in steps:
            r = call(x, op, dict(vals))
            if r.exc is not None:
                return unexpected_raise(x, r, op)
            sides[x].unacked_settings.append(vals)
            enqueue(x, {'k': 'settings', 'values': vals})
        h0 = make_headers(rng, 'request', tag())
        r = call('c', 'send_headers', sid, h0, end_stream=True)
        if r.exc is not None:
            return unexpected_raise('c', r, 'send_headers(request)')
        C.next_id += 2
        sc = C.st[sid] = new_stream('E', 'open')
        sc['sent'] = 'final'
        end_local(sc)
        enqueue('c', {'k': 'headers', 'sid': sid, 'hkind': 'request', 'headers': delivered_form(h0), 'es': True, 'prio': None})
        ops.append(('prelude', 'frame-size-change-around-a-promise', sid))
        settle()
        if not st['alive'] or sid not in S.st:
            return
        promised = S.next_id
        h1 = make_headers(rng, 'request', tag())
        r = call('s', 'push_stream', sid, promised, h1)
        if r.exc is not None:
            return unexpected_raise('s', r, 'push_stream', sid)
        S.next_id += 2
        S.st[promised] = new_stream('E', 'resl')
        enqueue('s', {'k': 'push', 'parent': sid, 'promised': promised, 'headers': delivered_form(h1)})
        vals = {wire.S_MAX_FRAME_SIZE: 16384}
        r = call('c', 'update_settings', dict(vals))
        if r.exc is not None:
            return unexpected_raise('c', r, 'update_settings')
        C.unacked_settings.append(vals)
        enqueue('c', {'k': 'settings', 'values': vals})
        settle()
        if not st['alive']:
            return
        h2l = make_headers(rng, 'final', tag()) + [(b'x-big', bytes(rng.choice(b'abcdefghijklmnopqrstuvwxyz') for _ in range(rng.choice([17000, 25000]))))]
        r = call('s', 'send_headers', promised, h2l)
        if r.exc is not None:
            return unexpected_raise('s', r, 'send_headers(response)', promised)
        S.st[promised]['state'] = 'hcr'
        S.st[promised]['sent'] = 'final'
        enqueue('s', {'k': 'headers', 'sid': promised, 'hkind': 'final', 'headers': delivered_form(h2l), 'es': False})
        rep.count('preludes_frame_size_change_around_a_promise')
        settle()

    if not upgraded and rng.random() < 0.04:
        prelude_frame_size_change_around_a_promise()
    nsteps = rng.randrange(20, 160)
    p_deliver = rng.choice([0.3, 0.5, 0.8])
    for _ in range(nsteps):
        if not st['alive']:
            break
        if sides['c'].retired and sides['s'].retired:
            break
        x = rng.choice(['c', 's'])
        if not sides[x].retired:
            for _try in range(4):
                if pick_op()(x):
                    break
        if not st['alive']:
            break
        while rng.random() < p_deliver and st['alive']:
            dirn = rng.choice(['c2s', 's2c'])
            pend = d.pending(dirn)
            if not pend:
                break
            r0 = rng.random()
            # (large backlogs - a header block of several frames - go out in larger pieces, still cut at arbitrary offsets)
            hi = 200 if pend < 2000 else pend // 3
            n = None if r0 < 0.4 else (1 if r0 < 0.5 and pend < 2000 else rng.randrange(1, max(2, min(pend, hi))))
            deliver(dirn, n)
    # drain everything
    for _ in range(60):
        if not st['alive'] or not (d.pending('c2s') or d.pending('s2c')):
            break
        deliver('c2s')
        if st['alive']:
            deliver('s2c')
    if st['alive']:
        for dirn in ('c2s', 's2c'):
            y = 's' if dirn == 'c2s' else 'c'
            if queue[dirn] and not sides[y].retired:
                fail('C01:messages-never-arrived', '%d messages still undelivered after draining %s' % (len(queue[dirn]), dirn))
                break
    rep.count('arguments_wrecked_by_the_caller_after_the_call', d.c.scrambled + d.s.scrambled)
    # what was delivered stays delivered: event lists returned earlier must still read as they did when they were returned
    for y in ('c', 's'):
        tap = d.tap(y)
        rep.count('returned_event_lists_reread_at_end', len(tap.returned))
        ch = tap.changed_after_return()
        if ch and st['alive']:
            i, then, now = ch[0]
            fail('C01:delivered-events-changed-after-delivery', 'the event list returned by receive_data call #%d of %s read %s when it '
                 'was returned and reads %s at the end of the case' % (i, y, then[:300], now[:300]))
    if st['compared'] >= 10 and st['midframe'] >= 1:
        rep.nontrivial(tuple(str(o) for o in ops))
    if idx % 499 == 0:
        rep.sample({'ops': [str(o) for o in ops[:30]], 'messages_compared': st['compared']})
