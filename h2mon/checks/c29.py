"""C29 - API misuse is reported only through documented exceptions and emits nothing.

apifuzz: every public call with well-typed but arbitrary arguments in every
connection and stream state.  Oracle:
 * a call either returns or raises an h2.exceptions.H2Error subclass; ValueError /
   TypeError only when the arguments actually violate one of the documented
   argument-range checks; never anything else;
 * a call acting on an existing stream raises StreamClosedError for a stream that was
   closed and forgotten and NoSuchStreamError (not StreamClosedError) for a never-used
   higher id (acknowledge_received_data alone may ignore forgotten streams);
 * a raising call leaves nothing in the output buffer.
"""
import h2.exceptions

from .. import core, scen, wire
from ..scen import REQ, RESP, hb

LEVEL = 'exploration'
RULE = ('each case = one endpoint (either role) brought to a random connection state (idle / open / closed by each route) '
        'with live, half-closed, closed-remembered, closed-forgotten and never-used stream ids, then 10-50 public calls '
        'with ints from {-1,0,1,2,live,closed,forgotten,highest+2,2^31-1,2^31,2^31+1,2^32,2^64}, sizes around windows and '
        'frame limits, valid/invalid header lists (blocks above the frame limit on new, live and promised streams), with the peer changing '
        'MAX_FRAME_SIZE (raised before the streams exist, lowered after) and other limits between the calls; non-trivial = at least one raising call judged; distinct = hash of the '
        'call list with outcomes')
MINIMA = {'calls_judged': 50000, 'raising_calls_output_checked': 10000, 'lookup_forgotten_judged': 500,
          'lookup_never_used_judged': 500, 'documented_range_errors': 500, 'setups_with_unacknowledged_data': 500, 'settings_values_beyond_32_bits': 300, 'setups_with_a_refused_promise': 100, 'setups_with_window_size_changed_under_unacknowledged_data': 150, 'header_blocks_within_a_few_octets_of_the_frame_limit': 2000, 'setups_with_frame_size_limit_raised_and_lowered': 300}
BIG = [2 ** 31 - 1, 2 ** 31, 2 ** 31 + 1, 2 ** 32, 2 ** 64]


def n_cases(tier):
    return 6000 if tier == 'quick' else 120000


def run_case(idx, rng, tier, rep):
    e_client = rng.random() < 0.5
    conn_state = rng.choice(['idle', 'open', 'open', 'open', 'open', 'closed_local', 'closed_goaway', 'closed_error'])
    h = scen.Hostile(e_client, keep_log=True, handshake=(conn_state != 'idle'))
    t = h.t
    live, closed_rem, forgotten = [], [], []
    data_sid = []
    refused_promises = []
    raised_mfs = False
    if conn_state != 'idle':
        if rng.random() < 0.3:
            # the peer allows larger frames for a while (and may take that back once streams exist)
            raised_mfs = h.send(wire.build_settings([(wire.S_MAX_FRAME_SIZE, rng.choice([16385, 32768, 2 ** 24 - 1]))])).ok
        for _ in range(rng.choice([0, 1, 2, 4])):
            st = rng.choice(['open', 'open_resp', 'hc_remote', 'hc_local', 'closed_es', 'closed_rst_sent', 'closed_rst_recv'])
            sid = h.reach(st)
            (closed_rem if st.startswith('closed') else live).append(sid)
            if st == 'closed_rst_sent' and e_client and rng.random() < 0.6:
                # a promise that was on its way when E reset the stream: refused by the library itself, and its id is a used,
                # closed one from then on
                pid = h.peer_next
                h.peer_next += 2
                r0 = h.send(wire.build_push_promise(sid, pid, hb(REQ)))
                if r0.ok and any(f.type == wire.RST_STREAM and f.stream_id == pid for f in r0.frames):
                    refused_promises.append(pid)
                    rep.count('setups_with_a_refused_promise')
        if not e_client and live and rng.random() < 0.4:
            par = [s for s in live if s % 2 == 1 and h.c.streams[s].open]
            if par:
                r = t.call('push_stream', par[0], h.e_next, REQ)
                if r.ok:
                    live.append(h.e_next)
                    h.e_next += 2
        # received and not yet acknowledged flow-controlled data: only then can an acknowledgement produce output
        if live and rng.random() < 0.5:
            for s0 in live:
                st0 = getattr(h.c.streams.get(s0), 'state_machine', None)
                if st0 is None or getattr(st0.state, 'name', '') not in ('OPEN', 'HALF_CLOSED_LOCAL') or not getattr(st0, 'headers_received', False):
                    continue
                for _ in range(3):
                    if not h.send(wire.build_data(s0, b'd' * 16000)).ok:
                        break
                rep.count('setups_with_unacknowledged_data')
                data_sid.append(s0)
                if rng.random() < 0.4:
                    # ... and E then shrinks (or grows) its INITIAL_WINDOW_SIZE, acknowledged by the peer: the stream's
                    # receive window is now negative, zero or tiny while there is data to acknowledge
                    if t.call('update_settings', {4: rng.choice([0, 0, 1, 10, 70000])}).ok and h.send(wire.build_settings(ack=True)).ok:
                        rep.count('setups_with_window_size_changed_under_unacknowledged_data')
                break
        if raised_mfs and rng.random() < 0.7:
            h.send(wire.build_settings([(wire.S_MAX_FRAME_SIZE, 16384)]))
            rep.count('setups_with_frame_size_limit_raised_and_lowered')
        if closed_rem and rng.random() < 0.6:
            h.cleanup()
            forgotten, closed_rem = closed_rem, []
            if rng.random() < 0.5:
                # more traffic after cleanup
                live.append(h.reach('open'))
        if conn_state == 'closed_local':
            t.call('close_connection')
        elif conn_state == 'closed_goaway':
            h.send(wire.build_goaway(0, 0))
        elif conn_state == 'closed_error':
            h.send(wire.build_data(0, b'x'))
    forgotten = forgotten + refused_promises
    # watermarks per parity from what was actually used
    used_odd = max([s for s in live + closed_rem + forgotten if s % 2 == 1] or [0])
    used_even = max([s for s in live + closed_rem + forgotten if s % 2 == 0] or [0])
    never_used = []
    for base in (used_odd, used_even):
        nxt = base + 2 if base else (1 if base == used_odd and used_odd == 0 and base is used_odd else 2)
    never_used = [used_odd + 2 if used_odd else 1, used_even + 2 if used_even else 2, used_odd + 20 + (1 - used_odd % 2 if used_odd else 1) * 0]
    never_used = [n for n in never_used if n > 0]
    never_used[2:] = [max(used_odd, 1) + 40]     # odd, far
    calls_sig = []

    def prune_never_used(lst):
        # ids at or below E's own watermarks are not "never used" from E's point of view (e.g. a refused
        # push_stream may already have registered its promised id)
        hi_out = getattr(t.c, 'highest_outbound_stream_id', None)
        hi_in = getattr(t.c, 'highest_inbound_stream_id', None)
        if hi_out is None or hi_in is None:
            return []
        return [n for n in lst if n > (hi_out if (n % 2 == int(e_client)) else hi_in)]

    never_used = prune_never_used(never_used)

    def ints():
        pool = [-1, 0, 1, 2] + BIG + never_used
        pool += live * 3 + closed_rem * 2 + forgotten * 3
        return rng.choice(pool)

    def fsm_state():
        st = getattr(getattr(t.c, 'state_machine', None), 'state', None)
        return getattr(st, 'name', None)

    def judge(op, res, range_violation, lookup_sid=None, lookup_applies=True, precond_ok=True):
        """range_violation: True when the arguments violate a documented range check."""
        rep.count('calls_judged')
        exc = res.exc
        calls_sig.append((op, type(exc).__name__ if exc else 'ok'))
        if exc is None:
            return
        rep.count('raising_calls_output_checked')
        if res.out:
            rep.violation('C29:raising-call-emitted-bytes:%s:%s' % (op, core.exc_key(exc)),
                          '%s raised %s but left %d bytes in the output (%s)' %
                          (op, type(exc).__name__, len(res.out), [f.name for f in res.frames][:4]), wit(h, op))
        if isinstance(exc, h2.exceptions.H2Error):
            pass
        elif isinstance(exc, (ValueError, TypeError)) and range_violation:
            rep.count('documented_range_errors')
        else:
            rep.violation('C29:undocumented-exception:%s:%s' % (op, core.exc_key(exc)),
                          '%s raised %s: %s' % (op, type(exc).__name__, str(exc)[:150]), wit(h, op))
            return
        # stream-lookup oracle
        if lookup_sid is None or not lookup_applies or not conn_is_open or range_violation or not precond_ok:
            return
        if lookup_sid in forgotten:
            rep.count('lookup_forgotten_judged')
            if not isinstance(exc, h2.exceptions.StreamClosedError):
                rep.violation('C29:forgotten-stream-not-StreamClosedError:%s:%s' % (op, type(exc).__name__),
                              '%s on a closed-and-forgotten stream raised %s' % (op, core.exc_key(exc)), wit(h, op))
        elif lookup_sid in never_used:
            rep.count('lookup_never_used_judged')
            if not isinstance(exc, h2.exceptions.NoSuchStreamError) or isinstance(exc, h2.exceptions.StreamClosedError):
                rep.violation('C29:never-used-stream-not-NoSuchStreamError:%s:%s' % (op, type(exc).__name__),
                              '%s on a never-used higher stream id raised %s' % (op, core.exc_key(exc)), wit(h, op))

    for step in range(rng.randrange(10, 51)):
        fsm_before = fsm_state()
        was_closed = fsm_before == 'CLOSED'
        conn_is_open = fsm_before == ('CLIENT_OPEN' if e_client else 'SERVER_OPEN')
        op = rng.choice(['send_headers', 'send_data', 'end_stream', 'increment', 'push_stream', 'ping', 'reset_stream',
                         'close_connection', 'update_settings', 'altsvc', 'prioritize', 'ack', 'local_window',
                         'remote_window', 'next_id', 'data_to_send', 'initiate', 'send_headers_big', 'peer_settings'])
        if op == 'peer_settings':
            # not a call under judgement: the peer changes a limit, so that later calls meet streams created under another one
            if conn_is_open and rng.random() < 0.4:
                # ... or acknowledges E's own changes, so that later calls run under the new local values (an
                # INITIAL_WINDOW_SIZE of 0 with data already received, a lowered frame or header-list limit)
                h.send(wire.build_settings(ack=True))
                rep.count('peer_acknowledgements_between_calls')
            elif conn_is_open and rng.random() < 0.5:
                h.send(wire.build_settings([rng.choice([(wire.S_MAX_FRAME_SIZE, rng.choice([16384, 16384, 20000, 32768])),
                                                        (wire.S_INITIAL_WINDOW_SIZE, rng.choice([0, 100, 65535, 100000])),
                                                        (wire.S_MAX_CONCURRENT_STREAMS, rng.choice([0, 1, 100])),
                                                        (wire.S_HEADER_TABLE_SIZE, rng.choice([0, 100, 4096]))])]))
                rep.count('peer_settings_changes_between_calls')
            continue
        if op == 'close_connection' and rng.random() < 0.7:
            continue
        sid = ints()
        if op == 'send_headers':
            hs = rng.choice([REQ, RESP, [], [(b'x-trailer', b'1')], [(b':status', b'100')], scen.REQ_POST,
                             [(b'x-a', b'1')] + REQ, REQ + [(b'connection', b'close')], [(':method', 'GET')],
                             REQ + [(b'x-big', b'v' * rng.choice([16300, 16384, 16400, 40000]))],
                             # pseudo-header fields of the wrong kind, one or several, also unknown and repeated ones
                             [(b':status', b'200'), (b':method', b'GET'), (b':path', b'/')],
                             [(b':status', b'200'), (b':scheme', b'https'), (b':authority', b'a'), (b':protocol', b'x')],
                             REQ + [(b':status', b'200')], [(b':status', b'200'), (b':status', b'404'), (b':x', b'y')],
                             [(b':method', b'GET'), (b':method', b'POST'), (b':scheme', b'https'), (b':path', b'/'), (b':bogus', b'1'), (b':other', b'2')]])
            kw = {}
            if rng.random() < 0.35:
                kw['priority_weight'] = rng.choice([None, 0, 1, 16, 256, 257, -1, 2 ** 32])
                kw['priority_depends_on'] = rng.choice([None, 0, 1, sid] + BIG)
                kw['priority_exclusive'] = rng.choice([None, True, False])
            res = t.call('send_headers', sid, hs, end_stream=rng.random() < 0.4, **kw)
            judge(op, res, False)
        elif op == 'send_headers_big':
            # header block at / above the frame-size limit, with and without (valid) priority arguments
            big = [(b'x-big', bytes(rng.randrange(256) for _ in range(64)) * rng.choice([200, 256, 300, 700]))]
            if rng.random() < 0.5:
                # encoded block lengths within a few octets of the frame-size limit, where the octets a first frame carries in
                # front of its fragment (priority fields, promised stream id) decide whether it still fits
                n = rng.randrange(16384 - 70, 16384 + 12)
                # (octets whose Huffman code is exactly 8 bits long: the encoded value is as long as the value, whichever
                # form the encoder picks)
                big = [(b'x-big', bytes(rng.choice(b'XZ&*,;') for _ in range(64)) * (n // 64) + b'X' * (n % 64))]
                rep.count('header_blocks_within_a_few_octets_of_the_frame_limit')
            if not e_client and live and rng.random() < 0.4:
                res = t.call('push_stream', rng.choice(live), h.e_next, REQ + big)
                if res.exc is None:
                    live.append(h.e_next)
                    h.e_next += 2
                never_used[:] = prune_never_used(never_used)
                judge('push_stream', res, False)
                continue
            if not e_client:
                # a response or trailers on a stream the server may use (promised ones included)
                if not live:
                    continue
                res = t.call('send_headers', rng.choice(live), rng.choice([RESP, RESP, [(b':status', b'103')], []]) + big,
                             end_stream=rng.random() < 0.4)
                judge('send_headers', res, False)
                continue
            nsid = getattr(t.c, 'highest_outbound_stream_id', 0) + (2 if getattr(t.c, 'highest_outbound_stream_id', 0) else 1)
            hs = REQ + big
            kw = {}
            if rng.random() < 0.6:
                kw = {'priority_weight': rng.choice([1, 16, 256]), 'priority_depends_on': rng.choice([0, 1]),
                      'priority_exclusive': rng.choice([True, False])}
            res = t.call('send_headers', nsid, hs, end_stream=rng.random() < 0.4, **kw)
            judge('send_headers', res, False)
        elif op == 'send_data':
            n = rng.choice([0, 1, 100, 16383, 16384, 16385, 65535, 65536])
            pad = rng.choice([None, None, 0, 1, 255, 256, -1, 2 ** 32])
            res = t.call('send_data', sid, b'd' * n, end_stream=rng.random() < 0.3, pad_length=pad)
            rv = pad is not None and not 0 <= pad <= 255
            judge(op, res, rv, lookup_sid=sid)
        elif op == 'end_stream':
            res = t.call('end_stream', sid)
            judge(op, res, False, lookup_sid=sid)
        elif op == 'increment':
            inc = rng.choice([1, 100, 65535, 0, -1] + BIG)
            if rng.random() < 0.7:
                res = t.call('increment_flow_control_window', inc, sid)
                judge(op, res, not 1 <= inc <= 2 ** 31 - 1, lookup_sid=sid)
            else:
                res = t.call('increment_flow_control_window', inc)
                judge(op + '-conn', res, not 1 <= inc <= 2 ** 31 - 1)
        elif op == 'push_stream':
            promised = rng.choice([h.e_next, h.e_next + 2, 2, 4, 1] + BIG + [ints()])
            hs = rng.choice([REQ, REQ, RESP, [], REQ[:2]])
            push_ok = (not e_client) and bool(getattr(t.c.remote_settings, 'enable_push', 1))
            res = t.call('push_stream', sid, promised, hs)
            judge(op, res, False, lookup_sid=sid, lookup_applies=push_ok)
        elif op == 'ping':
            p = rng.choice([b'12345678', b'', b'1234567', b'123456789', b'\0' * 8])
            res = t.call('ping', p)
            judge(op, res, len(p) != 8)
        elif op == 'reset_stream':
            code = rng.choice([0, 1, 8, 0xff, 2 ** 32 - 1, -1] + BIG)
            res = t.call('reset_stream', sid, code)
            # documented since the repair c12a0ab: ValueError for an error code that does not fit in 32 bits
            bad_code = not 0 <= code <= 2 ** 32 - 1
            judge(op, res, bad_code, lookup_sid=sid)
            if bad_code and res.exc is None:
                rep.violation('C29:out-of-range-argument-accepted:reset_stream', 'reset_stream(%d, %d) succeeded' % (sid, code), wit(h, op))
        elif op == 'close_connection':
            code = rng.choice([0, 1, 2 ** 32 - 1, -1] + BIG)
            last = rng.choice([None, 0, 1, -1] + BIG)
            res = t.call('close_connection', code, rng.choice([None, b'', b'debug']), last)
            # documented since c12a0ab: ValueError for an error code beyond 32 bits or a last stream id beyond 31 bits
            bad_arg = not 0 <= code <= 2 ** 32 - 1 or (last is not None and not 0 <= last <= 2 ** 31 - 1)
            judge(op, res, bad_arg)
            if bad_arg and res.exc is None:
                rep.violation('C29:out-of-range-argument-accepted:close_connection', 'close_connection(%d, last=%r) succeeded' % (code, last), wit(h, op))
        elif op == 'update_settings':
            k = rng.choice([1, 2, 3, 4, 5, 6, 8, 9, 0xffff])
            v = rng.choice([0, 0, 1, 2, 100, 16384, 65535, 2 ** 24 - 1, 2 ** 24, 2 ** 31 - 1, 2 ** 31, 2 ** 32 - 1, 2 ** 32, -1, 2 ** 64])
            if rng.random() < 0.25:
                k = 4
            d = {k: v}
            if rng.random() < 0.2:
                d[rng.choice([3, 6, 0x99])] = rng.choice([7, 2 ** 32, -1])
            res = t.call('update_settings', d)
            judge(op, res, False)
            if any(not 0 <= x <= 2 ** 32 - 1 for x in d.values()):
                rep.count('settings_values_beyond_32_bits')
                if res.exc is None and conn_is_open:
                    rep.violation('C29:unserialisable-setting-accepted', 'update_settings(%r) returned normally' % (d,), wit(h, op))
        elif op == 'altsvc':
            mode = rng.choice(['origin', 'stream', 'both', 'neither'])
            field = b'h2=":443"'
            if mode == 'origin':
                res = t.call('advertise_alternative_service', field, origin=rng.choice([b'example.com', b'']))
                judge(op, res, False)
            elif mode == 'stream':
                res = t.call('advertise_alternative_service', field, stream_id=sid)
                judge(op, res, False, lookup_sid=sid, lookup_applies=not e_client)
            elif mode == 'both':
                res = t.call('advertise_alternative_service', field, origin=b'example.com', stream_id=sid)
                judge(op, res, True)
            else:
                res = t.call('advertise_alternative_service', field)
                judge(op + '-neither', res, True)
        elif op == 'prioritize':
            res = t.call('prioritize', sid, weight=rng.choice([None, 0, 1, 16, 256, 257, -1]),
                         depends_on=rng.choice([None, 0, 1, 3, sid] + BIG), exclusive=rng.choice([None, True, False]))
            judge(op, res, False)
        elif op == 'ack':
            n = rng.choice([0, 1, 100, 32768, 40000, 48000, 65535, -1, 2 ** 31, 2 ** 64])
            if data_sid and rng.random() < 0.5:
                sid = data_sid[0]
            res = t.call('acknowledge_received_data', n, sid)
            rv = n < 0 or sid <= 0
            # acknowledge_received_data alone may ignore forgotten streams: only never-used ids are judged
            judge(op, res, rv, lookup_sid=sid if sid in never_used else None)
            if res.exc is None and sid in never_used and not rv and conn_is_open:
                rep.violation('C29:acknowledge-on-never-used-stream-accepted',
                              'acknowledge_received_data(%d, %d) on a never-used stream id returned normally' % (n, sid), wit(h, op))
        elif op == 'local_window':
            res = t.call('local_flow_control_window', sid)
            judge(op, res, False, lookup_sid=sid)
            if res.exc is None and (sid in forgotten or sid in never_used):
                rep.violation('C29:window-query-on-%s-stream-accepted' % ('forgotten' if sid in forgotten else 'never-used'),
                              'local_flow_control_window(%d) returned %r' % (sid, res.value), wit(h, op))
        elif op == 'remote_window':
            res = t.call('remote_flow_control_window', sid)
            judge(op, res, False, lookup_sid=sid)
        elif op == 'next_id':
            res = t.call('get_next_available_stream_id')
            judge(op, res, False)
        elif op == 'data_to_send':
            amt = rng.choice([None, 0, 1, 10, 2 ** 40])
            res = t.call('data_to_send', amt)
            judge(op, res, False)
        elif op == 'initiate':
            if rng.random() < 0.8:
                continue
            res = t.call('initiate_connection')
            judge(op, res, False)
        # keep the model of live streams roughly current: ids whose stream closed move to closed_rem
        for s in list(live):
            st = getattr(t.c, 'streams', {}).get(s)
            if st is None:
                live.remove(s)
                if s not in forgotten:
                    forgotten.append(s)
            elif getattr(st, 'closed', False):
                live.remove(s)
                closed_rem.append(s)
        for s in list(closed_rem):
            if s not in getattr(t.c, 'streams', {}):
                closed_rem.remove(s)
                forgotten.append(s)
        # newly used ids are no longer "never used"
        never_used = prune_never_used(never_used)
    if any(o != 'ok' for _, o in calls_sig):
        rep.nontrivial((e_client, conn_state, tuple(calls_sig)))
    if idx % 599 == 0:
        rep.sample({'role': 'client' if e_client else 'server', 'conn_state': conn_state, 'live': live, 'forgotten': forgotten,
                    'calls': calls_sig[:30]})


def wit(h, op):
    return {'role': 'client' if h.e_client else 'server', 'op': op, 'log_tail': h.t.tail_log(6)}
