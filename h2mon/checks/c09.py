"""C09 - stream identifiers are allocated and checked per RFC 7540 section 5.1.1.

One real endpoint E (either role, plain or h2c-upgraded) against a scripted peer.
A shadow of the identifier space is driven only by what crossed the boundary:
the highest id E has opened / promised, the highest id the peer has opened /
promised, and for every used id who used it and how it ended (still live,
reset by either side, ended normally).  Ids never used below a watermark are
"skipped" (implicitly closed).

Judged:
 * every opening E attempts with a user-chosen id (client: send_headers on a new
   id; server: push_stream with a new promised id) succeeds exactly when the id
   has E's parity, lies above everything E used before and is <= 2^31-1;
   otherwise it raises a ProtocolError and emits nothing;
 * on the wire: every HEADERS frame E emits on an id nobody used before and every
   PUSH_PROMISE is such an opening, carries exactly the caller's id, and ids are
   strictly increasing;
 * get_next_available_stream_id() after every step equals the smallest unused id
   of E's parity above E's highest (NoAvailableStreamIDError exactly when that
   would exceed 2^31-1), and an opening with the returned id succeeds;
 * peer openings (HEADERS at a server, PUSH_PROMISE / HEADERS at a client): a
   fresh id of the peer's parity above its highest is accepted; wrong parity or a
   skipped id is a PROTOCOL_ERROR connection error; an id whose stream was reset
   (by either side) is a stream error (RST_STREAM on that id, connection stays
   up); an id whose stream ended normally is a STREAM_CLOSED connection error -
   before and after E has forgotten the closed stream, and also while E's
   concurrent-stream limit is saturated;
 * PRIORITY frames (received, and sent by a client E) on idle, skipped, live,
   closed and far-future ids change nothing: no exception, one PriorityUpdated,
   same next id, same open-stream counts, and ids at or below the prioritised id
   can still be opened afterwards by whoever owns them.
"""
import h2.events
import h2.exceptions

from .. import core, scen, wire
from ..scen import REQ, RESP, hb

LEVEL = 'exploration'
RULE = ('random histories (6-40 steps) for both roles, plain and h2c-upgraded connections: openings by E with user-chosen ids '
        '(next, skipping ahead, boundary 2^31-3..2^31-1, wrong parity, too low, above 2^31-1), peer openings with fresh / wrong-parity / '
        'skipped / reset / normally-ended ids before and after cleanup and with the local MAX_CONCURRENT_STREAMS saturated, '
        'PRIORITY frames on idle / live / closed / far-future ids followed by openings at or below them; non-trivial = at least one '
        'refused-or-classified opening judged; distinct = hash of the step list')
MINIMA = {'local_valid_opening_accepted': 3000, 'local_invalid_opening_refused': 2000, 'next_id_compared': 30000,
          'next_id_exhausted_checked': 100, 'peer_fresh_opening_accepted': 3000, 'peer_wrong_parity_judged': 300,
          'peer_skipped_id_judged': 300, 'peer_reset_id_stream_error': 300, 'peer_ended_id_conn_error': 300,
          'priority_neutrality_checked': 2000, 'opening_after_priority_on_higher_id': 300,
          'wire_openings_checked': 3000, 'failed_opening_id_unused_checked': 300, 'failed_opening_with_skipping_id_checked': 100, 'refused_promise_id_recorded': 100, 'stale_promise_on_reset_parent': 30, 'client_headers_on_closed_pushed_stream': 30, 'peer_promised_again_judged': 30, 'classified_after_cleanup': 300, 'classified_while_saturated': 100}
EXHAUSTIVE = {}

TOP = 2 ** 31 - 1
PROTOCOL_ERROR = 1
STREAM_CLOSED = 5


def n_cases(tier):
    return 5000 if tier == 'quick' else 3000000


def run_case(idx, rng, tier, rep):
    e_client = rng.random() < 0.5
    upgraded = rng.random() < 0.15
    saturate = (not upgraded) and rng.random() < 0.15
    steps = []
    st = {'alive': True, 'judged': False}
    used = {}                 # sid -> {'by': 'E'|'P', 'fate': 'live'|'reserved'|'rst_e'|'rst_p'|'end'}
    hi = {'E': 0, 'P': 0}
    e_par = 1 if e_client else 0
    p_par = 1 - e_par

    if upgraded:
        h = scen.Hostile(e_client, handshake=False)
        t = h.t
        if e_client:
            r = t.call('initiate_upgrade_connection')
            h.send(wire.build_settings([]))
            used[1] = {'by': 'E', 'fate': 'live'}
            hi['E'] = 1
        else:
            r = t.call('initiate_upgrade_connection', b'')
            h.send(wire.PREFACE + wire.build_settings([]))
            used[1] = {'by': 'P', 'fate': 'live'}
            hi['P'] = 1
        if r.exc is not None:
            rep.violation('C09:upgrade-raises:' + core.exc_key(r.exc), repr(r.exc))
            return
    else:
        h = scen.Hostile(e_client, e_settings=({wire.S_MAX_CONCURRENT_STREAMS: rng.choice([0, 1] if e_client else [1, 2, 3])}
                                               if saturate else None))
        t = h.t
    e_limit = t.c.local_settings.max_concurrent_streams if saturate else None

    def witness():
        return {'role': 'client' if e_client else 'server', 'upgraded': upgraded, 'saturate': saturate,
                'steps': [str(x) for x in steps[-14:]], 'highest': dict(hi),
                'used': {str(k): v['by'] + ':' + v['fate'] for k, v in sorted(used.items())[-12:]},
                'log_tail': t.tail_log(4)}

    def fail(key, what, stop=True):
        rep.violation(key, what, witness())
        if stop:
            st['alive'] = False

    def model_next():
        if hi['E'] == 0:
            return 1 if e_client else 2
        return hi['E'] + 2

    def check_next():
        if not st['alive']:
            return
        want = model_next()
        try:
            got = t.c.get_next_available_stream_id()
        except h2.exceptions.NoAvailableStreamIDError:
            got = 'exhausted'
        except Exception as e:      # noqa
            fail('C09:next-id-raises:' + core.exc_key(e), repr(e))
            return
        rep.count('next_id_compared')
        if want > TOP:
            rep.count('next_id_exhausted_checked')
            if got != 'exhausted':
                fail('C09:next-id-not-exhausted', 'get_next_available_stream_id() = %r although the highest used id is %d' % (got, hi['E']))
        elif got != want:
            fail('C09:next-id-wrong', 'get_next_available_stream_id() = %r, smallest unused id above the highest used (%d) is %d' %
                 (got, hi['E'], want))

    def wire_openings(frames, declared=None):
        """Every HEADERS on a never-used id and every PUSH_PROMISE that E emitted is an opening."""
        for f in frames:
            sid = None
            if f.type == wire.HEADERS and f.stream_id not in used:
                sid = f.stream_id
                if not e_client:
                    fail('C09:wire:server-opened-stream-with-HEADERS', 'a server emitted HEADERS on never-used stream %d' % sid)
                    return
            elif f.type == wire.PUSH_PROMISE:
                sid = f.promised_id
            if sid is None:
                continue
            rep.count('wire_openings_checked')
            if f.r_bit:
                fail('C09:wire:reserved-bit-set', 'frame %r has the reserved bit set' % (f.brief(),))
            elif sid % 2 != e_par:
                fail('C09:wire:wrong-parity', 'E opened stream %d, which has the peer parity' % sid)
            elif sid <= hi['E']:
                fail('C09:wire:id-not-increasing', 'E opened stream %d after having used %d' % (sid, hi['E']))
            elif sid > TOP:
                fail('C09:wire:id-above-2^31-1', 'E opened stream %d' % sid)
            elif declared is None or sid != declared:
                fail('C09:wire:opened-id-differs-from-call', 'E opened stream %d, the call named %r' % (sid, declared))
            if not st['alive']:
                return

    def live_parent():
        """A client-initiated stream on which the server may still send (needed for pushes)."""
        owner = 'P' if not e_client else 'E'
        c = [s for s, v in used.items() if v['by'] == owner and v['fate'] == 'live' and s % 2 == 1]
        return rng.choice(sorted(c)) if c else None

    def ensure_parent():
        p = live_parent()
        if p is not None:
            return p
        if e_client:
            x = model_next()
            if x > TOP:
                return None
            steps.append(('E-open-parent', x))
            r = t.call('send_headers', x, REQ)
            if r.exc is not None:
                fail('C09:valid-opening-refused:send_headers:' + core.exc_key(r.exc), 'send_headers(%d) raised %r' % (x, r.exc))
                return None
            wire_openings(r.frames, x)
            used[x] = {'by': 'E', 'fate': 'live'}
            hi['E'] = x
            rep.count('local_valid_opening_accepted')
            return x
        if sat_blocked():
            return None
        y = hi['P'] + 2 if hi['P'] else 1
        if y > TOP:
            return None
        steps.append(('P-open-parent', y))
        res = h.send(wire.build_headers(y, hb(REQ)))
        if res.exc is not None:
            fail('C09:fresh-peer-id-refused:HEADERS:' + core.exc_key(res.exc), 'HEADERS on fresh stream %d raised %r' % (y, res.exc))
            return None
        used[y] = {'by': 'P', 'fate': 'live'}
        hi['P'] = y
        rep.count('peer_fresh_opening_accepted')
        return y

    def count_in():
        # peer-initiated streams in open / half-closed states as E must count them
        return sum(1 for s, v in used.items() if v['by'] == 'P' and v['fate'] == 'live')

    def sat_blocked():
        # a server E whose acknowledged limit is reached: the peer may not open another stream
        return saturate and not e_client and count_in() >= e_limit

    def pick_fresh(who):
        par = e_par if who == 'E' else p_par
        base = hi[who] + 2 if hi[who] else (1 if par else 2)
        if base > TOP:
            return None
        r = rng.random()
        if r < 0.6:
            x = base
        elif r < 0.85:
            x = base + 2 * rng.randrange(1, 6)
        elif r < 0.93:
            x = base + 2 * rng.randrange(1, 2 ** 29)
        else:
            top = TOP if par else TOP - 1
            x = top - 2 * rng.randrange(0, 3)
        if x > TOP or x <= hi[who]:
            x = base
        return x

    def skipped_ids(who):
        par = e_par if who == 'E' else p_par
        out = []
        lo = 1 if par else 2
        cand = set()
        for s in list(used) + [hi[who]]:
            for d in (-2, -4, 2):
                cand.add(s + d)
        for _ in range(3):
            if hi[who] > lo:
                cand.add(rng.randrange(lo, hi[who]) // 2 * 2 + (1 if par else 0))
        for x in cand:
            if x >= lo and x % 2 == par and x < hi[who] and x not in used:
                out.append(x)
        return sorted(out)

    def apply_fate(sid, who):
        """Give a freshly opened stream its end (or leave it live)."""
        v = used[sid]
        if saturate and who == 'P' and not e_client and rng.random() < 0.5:
            return                      # keep slots occupied
        f = rng.choice(['live', 'live', 'rst_e', 'rst_p', 'end'])
        if f == 'end' and saturate and e_client and v['fate'] == 'reserved' and v['by'] == 'P':
            # the pushed response would take the stream from reserved to half-closed, which counts against E's own (saturated)
            # MAX_CONCURRENT_STREAMS: the peer may not do that
            f = 'rst_p'
        if f == 'live':
            return
        steps.append(('fate', sid, f))
        if f == 'rst_e':
            r = t.call('reset_stream', sid, rng.choice([0, 8]))
            if r.exc is not None:
                return fail('C09:valid-step-refused:reset_stream:' + core.exc_key(r.exc), repr(r.exc))
        elif f == 'rst_p':
            r = h.send(wire.build_rst(sid, rng.choice([0, 8])))
            if r.exc is not None:
                return fail('C09:valid-step-refused:RST_STREAM:' + core.exc_key(r.exc), repr(r.exc))
        else:
            if v['fate'] == 'reserved':
                # pushed stream: the response with END_STREAM ends it (the promising side sends it)
                if v['by'] == 'P':
                    r = h.send(wire.build_headers(sid, hb(RESP), end_stream=True))
                else:
                    r = t.call('send_headers', sid, RESP, end_stream=True)
            elif v['by'] == 'P':
                # client peer: it ends its request, E answers with END_STREAM
                r = h.send(wire.build_data(sid, b'', end_stream=True))
                if r.exc is None:
                    r = t.call('send_headers', sid, RESP, end_stream=True)
            else:
                r = None if v.get('e_ended') else t.call('end_stream', sid)
                if r is None or r.exc is None:
                    r = h.send(wire.build_headers(sid, hb(RESP), end_stream=True))
            if r.exc is not None:
                return fail('C09:valid-step-refused:normal-end:' + core.exc_key(r.exc), repr(r.exc))
        v['fate'] = f

    def e_open(x, valid, why):
        """E attempts an opening with id x."""
        if e_client:
            es = rng.random() < 0.3
            steps.append(('E-open', x, why))
            r = t.call('send_headers', x, REQ, end_stream=es)
            what = 'send_headers'
        else:
            par = ensure_parent()
            if par is None or not st['alive']:
                return
            steps.append(('E-push', par, x, why))
            r = t.call('push_stream', par, x, REQ)
            what = 'push_stream'
        if valid:
            if r.exc is not None:
                return fail('C09:valid-opening-refused:%s:%s' % (what, core.exc_key(r.exc)),
                            '%s with id %d (%s; highest used %d) raised %r' % (what, x, why, hi['E'], r.exc))
            wire_openings(r.frames, x)
            if not st['alive']:
                return
            opened = [f for f in r.frames if (f.type == wire.HEADERS and f.stream_id == x) or
                      (f.type == wire.PUSH_PROMISE and f.promised_id == x)]
            if len(opened) != 1:
                return fail('C09:opening-not-on-wire:' + what, '%s(%d) emitted %s' % (what, x, [f.brief() for f in r.frames]))
            used[x] = {'by': 'E', 'fate': 'live' if e_client else 'reserved', 'e_ended': bool(e_client and es)}
            hi['E'] = x
            rep.count('local_valid_opening_accepted')
            apply_fate(x, 'E')
        else:
            st['judged'] = True
            if r.exc is None:
                wire_openings(r.frames, x)
                if st['alive']:
                    fail('C09:invalid-id-accepted:%s:%s' % (what, why), '%s with id %d (%s; highest used %d) succeeded, emitted %s' %
                         (what, x, why, hi['E'], [f.brief() for f in r.frames]))
                return
            if not isinstance(r.exc, h2.exceptions.ProtocolError):
                return fail('C09:invalid-id-wrong-exception:%s:%s:%s' % (what, why, core.exc_key(r.exc)), repr(r.exc))
            if r.frames:
                return fail('C09:refused-opening-emitted-frames:%s:%s' % (what, why), str([f.brief() for f in r.frames]))
            rep.count('local_invalid_opening_refused')
            rep.observe('local_refusal', '%s:%s:%s' % (what, why, type(r.exc).__name__))

    def expect_conn_error(res, code, klass, frame_name):
        st['judged'] = True
        goaways = [f for f in res.frames if f.type == wire.GOAWAY]
        if res.exc is None:
            return fail('C09:%s-accepted:%s' % (klass, frame_name),
                        '%s with a %s id was not a connection error; events %s, frames %s' %
                        (frame_name, klass, [type(e).__name__ for e in res.events], [f.brief() for f in res.frames]))
        got = getattr(res.exc, 'error_code', None)
        if not isinstance(res.exc, h2.exceptions.ProtocolError) or got is None or int(got) != code or \
                len(goaways) != 1 or goaways[0].error_code != code:
            return fail('C09:%s-wrong-reaction:%s:code-%s' % (klass, frame_name, None if got is None else int(got)),
                        '%s with a %s id: expected connection error %d, got %r (code %r), GOAWAY %s' %
                        (frame_name, klass, code, res.exc, got, [f.brief() for f in goaways]))
        st['alive'] = False       # the connection is closed: the history ends
        return True

    def p_open_invalid():
        """The peer uses an id it may not open a stream with."""
        classes = []
        for who_kind in ('parity', 'skipped', 'reset', 'ended'):
            classes.append(who_kind)
        if e_client:
            classes.append('promised-again')
        else:
            classes.append('own-pushed')
        klass = rng.choice(classes)
        cleaned = rng.random() < 0.5
        if klass == 'parity':
            # an id of E's parity that E never used (above or below E's highest)
            c = skipped_ids('E')
            above = hi['E'] + 2 if hi['E'] else (1 if e_par else 2)
            if above <= TOP:
                c.append(above)
                if above + 20 <= TOP:
                    c.append(above + 2 * rng.randrange(1, 10))
            if not c:
                return
            y = rng.choice(c)
        elif klass == 'skipped':
            c = skipped_ids('P')
            if not c:
                return
            y = rng.choice(c)
        elif klass == 'own-pushed':
            # HEADERS from the client on a stream the server itself pushed, after that stream was reset or has ended: judged by how
            # the stream was closed, like any other closed stream - however far the client's own ids have got
            c = [s for s, v in used.items() if v['by'] == 'E' and s % 2 == 0 and v['fate'] in ('rst_e', 'rst_p', 'end')]
            if not c:
                return
            y = rng.choice(sorted(c))
            klass = 'reset' if used[y]['fate'] in ('rst_e', 'rst_p') else 'ended'
            rep.count('client_headers_on_closed_pushed_stream')
        elif klass == 'promised-again':
            # an id the peer has promised and whose stream is still reserved or live
            c = [s for s, v in used.items() if v['by'] == 'P' and v['fate'] == 'reserved']
            if not c:
                return
            y = rng.choice(sorted(c))
        else:
            fates = ('rst_e', 'rst_p') if klass == 'reset' else ('end',)
            c = [s for s, v in used.items() if v['by'] == 'P' and v['fate'] in fates]
            if not c:
                return
            y = rng.choice(sorted(c))
        # frame that would open the stream
        if e_client:
            use_promise = (klass != 'parity' and rng.random() < 0.6) or (klass == 'parity' and rng.random() < 0.5) or klass == 'promised-again'
            if use_promise:
                par = ensure_parent()
                if par is None or not st['alive']:
                    return
                data = wire.build_push_promise(par, y, hb(REQ))
                fname = 'PUSH_PROMISE'
            else:
                data = wire.build_headers(y, hb(RESP))
                fname = 'HEADERS'
        else:
            data = wire.build_headers(y, hb(REQ), end_stream=rng.random() < 0.3)
            fname = 'HEADERS'
        if cleaned:
            h.cleanup()
        sat = saturate and count_in() >= e_limit
        steps.append(('P-invalid', klass, fname, y, 'cleaned' if cleaned else 'not-cleaned', 'saturated' if sat else ''))
        before = model_next()
        res = h.send(data)
        if cleaned:
            rep.count('classified_after_cleanup')
        if sat:
            rep.count('classified_while_saturated')
        if klass == 'parity':
            rep.count('peer_wrong_parity_judged')
            expect_conn_error(res, PROTOCOL_ERROR, 'wrong-parity', fname)
        elif klass == 'skipped':
            rep.count('peer_skipped_id_judged')
            expect_conn_error(res, PROTOCOL_ERROR, 'skipped', fname)
        elif klass == 'ended':
            if expect_conn_error(res, STREAM_CLOSED, 'normally-ended', fname):
                rep.count('peer_ended_id_conn_error')
        elif klass == 'promised-again':
            rep.count('peer_promised_again_judged')
            expect_conn_error(res, PROTOCOL_ERROR, 'promised-again', fname)
        else:
            st['judged'] = True
            rsts = [f for f in res.frames if f.type == wire.RST_STREAM and f.stream_id == y]
            if res.exc is not None:
                return fail('C09:reset-id-connection-error:%s:%s' % (fname, core.exc_key(res.exc)),
                            '%s on stream %d, which was reset (%s), raised %r instead of a stream error' %
                            (fname, y, used[y]['fate'], res.exc))
            bad_ev = [type(e).__name__ for e in res.events
                      if isinstance(e, (h2.events.RequestReceived, h2.events.ResponseReceived, h2.events.PushedStreamReceived))]
            if len(rsts) != 1 or bad_ev or any(f.type == wire.GOAWAY for f in res.frames):
                return fail('C09:reset-id-not-a-stream-error:%s' % fname,
                            '%s on reset stream %d: frames %s events %s' % (fname, y, [f.brief() for f in res.frames], bad_ev))
            rep.count('peer_reset_id_stream_error')
            rep.observe('reset_id_rst_code', '%s:%d' % (fname, rsts[0].error_code))
            if model_next() != before:
                fail('C09:harness', 'model changed')

    def p_open_valid(y=None, why='fresh'):
        if y is None:
            y = pick_fresh('P')
        if y is None:
            return
        if sat_blocked():
            return
        if e_client:
            par = ensure_parent()
            if par is None or not st['alive']:
                return
            steps.append(('P-push', par, y, why))
            res = h.send(wire.build_push_promise(par, y, hb(REQ)))
            fname = 'PUSH_PROMISE'
            want = h2.events.PushedStreamReceived
        else:
            es = rng.random() < 0.2
            steps.append(('P-open', y, why))
            res = h.send(wire.build_headers(y, hb(REQ), end_stream=False))
            fname = 'HEADERS'
            want = h2.events.RequestReceived
        if res.exc is not None:
            return fail('C09:fresh-peer-id-refused:%s:%s' % (fname, core.exc_key(res.exc)),
                        '%s opening fresh stream %d (peer highest %d) raised %r' % (fname, y, hi['P'], res.exc))
        evs = [e for e in res.events if isinstance(e, want)]
        got_id = None
        if evs:
            got_id = evs[0].pushed_stream_id if e_client else evs[0].stream_id
        if len(evs) != 1 or got_id != y or any(f.type in (wire.RST_STREAM, wire.GOAWAY) for f in res.frames):
            return fail('C09:fresh-peer-id-not-accepted:%s' % fname,
                        '%s opening fresh stream %d: events %s frames %s' %
                        (fname, y, [type(e).__name__ for e in res.events], [f.brief() for f in res.frames]))
        used[y] = {'by': 'P', 'fate': 'reserved' if e_client else 'live'}
        hi['P'] = y
        rep.count('peer_fresh_opening_accepted')
        apply_fate(y, 'P')

    def p_push_on_locally_reset_parent():
        """A PUSH_PROMISE that was in flight when E reset the parent: the promised stream is refused (RST_STREAM, no event) and its
        id counts as used by the peer and as reset, so later frames on it are stream errors too."""
        if not e_client or sat_blocked():
            return
        c = [s for s, v in used.items() if v['by'] == 'E' and v['fate'] == 'rst_e']
        y = pick_fresh('P')
        if not c or y is None:
            return
        par = rng.choice(sorted(c))
        if rng.random() < 0.5:
            h.cleanup()
        low = [s for s in skipped_ids('P') + [s for s, v in used.items() if v['by'] == 'P'] if s <= hi['P']]
        if low and rng.random() < 0.5:
            # the racing promise names an id the peer may not use any more (skipped or used): whether that is answered on the
            # promised stream or as a connection error, the peer's id space does not move backwards
            y = rng.choice(sorted(set(low)))
            steps.append(('P-push-on-locally-reset-parent-with-stale-id', par, y))
            res = h.send(wire.build_push_promise(par, y, hb(REQ)))
            rep.count('stale_promise_on_reset_parent')
            if res.exc is not None:
                st['alive'] = False
            elif any(isinstance(e, h2.events.PushedStreamReceived) for e in res.events):
                return fail('C09:stale-promised-id-accepted', 'PUSH_PROMISE(%d -> %d) delivered although %d is not above the peer highest %d' %
                            (par, y, y, hi['P']))
            elif rng.random() < 0.7:
                p_open_invalid()          # and the ids at and below the peer's highest are as unusable as before
            return
        steps.append(('P-push-on-locally-reset-parent', par, y))
        res = h.send(wire.build_push_promise(par, y, hb(REQ)))
        st['judged'] = True
        rsts = [f for f in res.frames if f.type == wire.RST_STREAM and f.stream_id == y]
        if res.exc is not None or len(rsts) != 1 or res.events:
            return fail('C09:promise-on-locally-reset-parent-not-refused',
                        'exc %r frames %s events %s' % (res.exc, [f.brief() for f in res.frames], [type(e).__name__ for e in res.events]))
        used[y] = {'by': 'P', 'fate': 'rst_e'}
        hi['P'] = y
        rep.count('refused_promise_id_recorded')

    def priority_step():
        kinds = ['idle_p', 'idle_e', 'used', 'top', 'skipped']
        k = rng.choice(kinds)
        if k == 'idle_p':
            base = hi['P'] + 2 if hi['P'] else (1 if p_par else 2)
            q = base + 2 * rng.randrange(0, 5)
        elif k == 'idle_e':
            base = hi['E'] + 2 if hi['E'] else (1 if e_par else 2)
            q = base + 2 * rng.randrange(0, 5)
        elif k == 'used':
            if not used:
                return
            q = rng.choice(sorted(used))
        elif k == 'top':
            q = TOP - rng.randrange(0, 4)
        else:
            c = skipped_ids('P') + skipped_ids('E')
            if not c:
                return
            q = rng.choice(c)
        if q > TOP or q < 1:
            return
        dep = rng.choice([0, 1, 3, q + 2 if q + 2 <= TOP else 0, TOP])
        if dep == q:
            dep = 0
        local = e_client and rng.random() < 0.3
        try:
            counts_before = (t.c.open_outbound_streams, t.c.open_inbound_streams) if rng.random() < 0.5 else None
        except Exception as e:      # noqa
            return fail('C09:counter-raises:' + core.exc_key(e), repr(e))
        if local:
            steps.append(('E-prioritize', q, k))
            r = t.call('prioritize', q, weight=rng.randrange(1, 257), depends_on=dep, exclusive=rng.random() < 0.5)
            if r.exc is not None:
                return fail('C09:prioritize-refused:%s:%s' % (k, core.exc_key(r.exc)), 'prioritize(%d) raised %r' % (q, r.exc))
            if len(r.frames) != 1 or r.frames[0].type != wire.PRIORITY or r.frames[0].stream_id != q:
                return fail('C09:prioritize-emission:%s' % k, str([f.brief() for f in r.frames]))
        else:
            steps.append(('P-priority', q, k))
            res = h.send(wire.build_priority(q, depends_on=dep, exclusive=rng.random() < 0.5, weight=rng.randrange(256)))
            if res.exc is not None:
                return fail('C09:priority-frame-error:%s:%s' % (k, core.exc_key(res.exc)),
                            'PRIORITY on stream %d (%s) raised %r' % (q, k, res.exc))
            names = [type(e).__name__ for e in res.events]
            if names != ['PriorityUpdated'] or res.frames:
                return fail('C09:priority-frame-side-effects:%s' % k,
                            'PRIORITY on stream %d (%s): events %s frames %s' % (q, k, names, [f.brief() for f in res.frames]))
        if counts_before is not None:
            after = (t.c.open_outbound_streams, t.c.open_inbound_streams)
            if after != counts_before:
                return fail('C09:priority-changed-open-counts:%s' % k, 'open counts %r -> %r after PRIORITY on %d' % (counts_before, after, q))
        rep.count('priority_neutrality_checked')
        check_next()
        if not st['alive']:
            return
        # ids at or below the prioritised one must still be usable by their owner
        if k in ('idle_p', 'top') and q % 2 == p_par and q > hi['P'] and rng.random() < 0.7:
            base = hi['P'] + 2 if hi['P'] else (1 if p_par else 2)
            y = q if rng.random() < 0.5 else base
            if not sat_blocked():
                rep.count('opening_after_priority_on_higher_id')
                p_open_valid(y, 'after-priority-on-%d' % q)
        elif k in ('idle_e', 'top') and q % 2 == e_par and q > hi['E'] and rng.random() < 0.7:
            x = q if rng.random() < 0.5 else model_next()
            rep.count('opening_after_priority_on_higher_id')
            e_open(x, True, 'after-priority-on-%d' % q)

    def e_open_invalid():
        kinds = ['parity', 'low', 'big']
        k = rng.choice(kinds)
        if k == 'parity':
            # an id of the peer's parity that nobody used
            base = hi['P'] + 2 if hi['P'] else (1 if p_par else 2)
            c = skipped_ids('P') + [base, base + 2 * rng.randrange(1, 50)]
            c = [x for x in c if x <= TOP]
            x = rng.choice(c)
        elif k == 'low':
            c = skipped_ids('E') + [s for s, v in used.items() if v['by'] == 'E' and v['fate'] in ('rst_e', 'rst_p', 'end')]
            if hi['E'] and not e_client:
                c.append(hi['E'])          # re-promising the latest id
            if not c:
                return
            x = rng.choice(sorted(c))
        else:
            x = rng.choice([2 ** 31, 2 ** 31 + 1, 2 ** 31 + 2, 2 ** 32, 2 ** 32 + 1, 2 ** 32 + 2, 2 ** 33 + 1, 2 ** 31 + 3])
            if x % 2 != e_par:
                x += 1
            k = 'above-2^31-1'
        e_open(x, False, k)

    BAD_HEADERS = [[(b':method', b'GET')], [(b':method', b'GET'), (b':scheme', b'https'), (b':path', b'/'), (b'Upper', b'x')],
                   [(b'x-first', b'1')] + REQ, REQ + [(b':path', b'/again')], REQ + [(b'connection', b'close')],
                   REQ + [(b'x-broken', None)], REQ + [(b'content-length', 0)]]

    def e_open_failing_for_other_reason():
        """A well-chosen id but an invalid header list: the call raises, so the id was not used."""
        # the id the call names: usually the next one, sometimes one that skips ahead (user-chosen ids need not be contiguous)
        x = model_next() if rng.random() < 0.5 else pick_fresh('E')
        if x is None or x > TOP:
            return
        expect_next = model_next()
        bad = rng.choice(BAD_HEADERS)
        if e_client:
            steps.append(('E-open-bad-headers', x))
            r = t.call('send_headers', x, bad)
            what = 'send_headers'
        else:
            par = ensure_parent()
            if par is None or not st['alive']:
                return
            steps.append(('E-push-bad-headers', par, x))
            r = t.call('push_stream', par, x, bad)
            what = 'push_stream'
        if r.exc is None:
            # header validity is C14's business (normalisation may have repaired the list); the id is used now
            wire_openings(r.frames, x)
            used[x] = {'by': 'E', 'fate': 'live' if e_client else 'reserved', 'e_ended': False}
            hi['E'] = x
            return
        st['judged'] = True
        if r.frames:
            return fail('C09:refused-opening-emitted-frames:%s:bad-headers' % what, str([f.brief() for f in r.frames]))
        rep.count('failed_opening_id_unused_checked')
        try:
            got = t.c.get_next_available_stream_id()
        except Exception as e:      # noqa
            got = type(e).__name__
        if got != expect_next:
            return fail('C09:failed-opening-consumed-id:%s' % what,
                        '%s(%d) raised %r and emitted nothing, yet get_next_available_stream_id() moved from %d to %r' %
                        (what, x, r.exc, expect_next, got))
        if x != expect_next:
            rep.count('failed_opening_with_skipping_id_checked')
        r0 = rng.random()
        if r0 < 0.4:
            e_open(x, True, 'retry-after-failed-opening')
        elif r0 < 0.7 and x != expect_next:
            # every unused id between the last used one and the refused one is still free
            e_open(rng.randrange(expect_next, x, 2), True, 'id-below-a-refused-opening')

    check_next()
    nsteps = rng.randrange(6, 40)
    for _ in range(nsteps):
        if not st['alive']:
            break
        op = rng.choice(['e_valid', 'e_valid', 'e_next', 'e_invalid', 'p_valid', 'p_valid', 'p_valid', 'p_invalid', 'priority',
                         'priority', 'cleanup'])
        if op == 'e_valid':
            x = pick_fresh('E')
            if x is None:
                e_open(model_next(), False, 'above-2^31-1')
            else:
                e_open(x, True, 'fresh')
        elif op == 'e_next':
            try:
                x = t.c.get_next_available_stream_id()
            except h2.exceptions.NoAvailableStreamIDError:
                x = None
            if x is not None:
                e_open(x, True, 'returned-by-get_next_available_stream_id')
        elif op == 'e_invalid':
            if rng.random() < 0.25:
                e_open_failing_for_other_reason()
            else:
                e_open_invalid()
        elif op == 'p_valid':
            if e_client and rng.random() < 0.2:
                p_push_on_locally_reset_parent()
            else:
                p_open_valid()
        elif op == 'p_invalid':
            p_open_invalid()
        elif op == 'priority':
            priority_step()
        else:
            steps.append(('cleanup',))
            h.cleanup()
        check_next()
    if st['judged']:
        rep.nontrivial(tuple(str(x) for x in steps))
    if idx % 499 == 0:
        rep.sample({'role': 'client' if e_client else 'server', 'upgraded': upgraded, 'steps': [str(x) for x in steps[:25]]})
