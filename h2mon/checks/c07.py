"""C07 - received events per stream follow the HTTP message grammar for the role.

Online trace-specification monitor over the return values of receive_data only:
a per-stream event automaton (server: RequestReceived DataReceived*
TrailersReceived? StreamEnded?; client: InformationalResponseReceived*
ResponseReceived DataReceived* TrailersReceived? StreamEnded?; pushed streams
follow the client automaton), at most one StreamReset per stream with only
PriorityUpdated after it, the role alphabet, and the related-event links
(stream_ended / priority_updated must be objects appearing later in the same
list; trailers always carry stream_ended).
"""
import h2.exceptions

from .. import core, gen, scen, wire, hpackmini as hm
from ..scen import REQ, RESP, hb

LEVEL = 'exploration'
RULE = ('each case = one endpoint (role x inbound configuration) fed up to 60 peer messages from a per-stream grammar with '
        'illegal productions enabled (DATA before HEADERS, HEADERS on never-promised even ids, second final response, '
        'trailers without END_STREAM, frames after END_STREAM / RST_STREAM, WINDOW_UPDATE between them, completed pushes whose ids are promised a second time, promises on locally reset parents naming lower ids), local calls in '
        'between (requests, 1xx / final responses, pushes, resets), byte mutation, random chunking; non-trivial = at least 5 '
        'stream events checked by the automaton; distinct = hash of delivered bytes + local calls')
MINIMA = {'events_checked': 100000, 'stream_events_checked': 50000, 'related_links_checked': 10000, 'streams_tracked': 20000,
          'completed_pushes_generated': 2000, 'stream_id_reuse_productions': 1000,
          'frames_on_ids_of_failed_openings': 300}

HEADER_EVENTS = ('RequestReceived', 'ResponseReceived', 'InformationalResponseReceived', 'TrailersReceived')


def n_cases(tier):
    return 20000 if tier == 'quick' else 1000000


class EventGrammar(object):
    """Per-connection monitor; feed(events) returns a list of (key, description)."""

    def __init__(self, e_client, rep):
        self.client = e_client
        self.rep = rep
        self.state = {}       # sid -> 'start' | 'headers' | 'data' | 'trailers' | 'ended'
        self.reset = set()
        self.pushed = set()

    def feed(self, events):
        probs = []
        rep = self.rep
        ids = [id(e) for e in events]
        for i, e in enumerate(events):
            n = type(e).__name__
            rep.count('events_checked')
            # role alphabet
            if self.client and n == 'RequestReceived':
                probs.append(('C07:client-reports-RequestReceived', 'a client returned RequestReceived (stream %s)' % e.stream_id))
            if not self.client and n in ('ResponseReceived', 'InformationalResponseReceived', 'PushedStreamReceived',
                                         'AlternativeServiceAvailable'):
                probs.append(('C07:server-reports-%s' % n, 'a server returned %s' % n))
            # related events
            for attr in ('stream_ended', 'priority_updated'):
                if hasattr(e, attr):
                    v = getattr(e, attr)
                    if v is not None:
                        rep.count('related_links_checked')
                        later = [j for j in range(i + 1, len(events)) if events[j] is v]
                        want_type = 'StreamEnded' if attr == 'stream_ended' else 'PriorityUpdated'
                        if not later:
                            where = 'earlier-in-list' if any(x is v for x in events[:i + 1]) else 'not-in-list'
                            probs.append(('C07:related-event-%s-%s' % (attr, where),
                                          '%s.%s does not refer to an event later in the same list' % (n, attr)))
                        elif type(v).__name__ != want_type or getattr(v, 'stream_id', None) != getattr(e, 'stream_id', None):
                            probs.append(('C07:related-event-%s-wrong-object' % attr, '%s.%s refers to %r' % (n, attr, v)))
            if n == 'TrailersReceived' and e.stream_ended is None:
                probs.append(('C07:trailers-without-stream_ended', 'TrailersReceived.stream_ended is None (stream %s)' % e.stream_id))
            if n == 'StreamEnded':
                # must be referred to by a preceding header/data event of the same list?  Not required by the statement.
                pass
            sid = getattr(e, 'stream_id', None)
            if n == 'PushedStreamReceived':
                sid = None
                if e.pushed_stream_id in self.state:
                    probs.append(('C07:stream-id-promised-twice', 'PushedStreamReceived for stream %s, which already had events (state %s)' %
                                  (e.pushed_stream_id, self.state[e.pushed_stream_id])))
                self.pushed.add(e.pushed_stream_id)
                self.state.setdefault(e.pushed_stream_id, 'start')
                self.rep.count('streams_tracked')
                par = e.parent_stream_id
                if par is None or par % 2 == 0:
                    probs.append(('C07:push-on-non-client-stream', 'PushedStreamReceived with parent %r' % par))
                if par in self.reset:
                    probs.append(('C07:event-after-StreamReset:PushedStreamReceived', 'push reported on reset stream %s' % par))
                continue
            if sid is None or n in ('WindowUpdated', 'PriorityUpdated', 'AlternativeServiceAvailable') or sid == 0:
                continue
            if n not in HEADER_EVENTS + ('DataReceived', 'StreamEnded', 'StreamReset'):
                continue
            rep.count('stream_events_checked')
            if sid in self.reset:
                probs.append(('C07:event-after-StreamReset:%s' % n, '%s on stream %d after its StreamReset' % (n, sid)))
                continue
            if n == 'StreamReset':
                self.reset.add(sid)
                continue
            stt = self.state.get(sid)
            if stt is None:
                stt = 'start'
                self.state[sid] = stt
                self.rep.count('streams_tracked')
            new = self.step(stt, n, sid)
            if new is None:
                probs.append(('C07:grammar:%s-in-state-%s:%s' % (n, stt, 'client' if self.client else 'server'),
                              '%s on stream %d while the stream event automaton is in state %s' % (n, sid, stt)))
            else:
                self.state[sid] = new
        return probs

    def step(self, stt, n, sid):
        first = 'RequestReceived' if not self.client else 'ResponseReceived'
        if stt == 'start':
            if n == first:
                return 'headers'
            if self.client and n == 'InformationalResponseReceived':
                return 'start'
            return None
        if stt == 'headers' or stt == 'data':
            if n == 'DataReceived':
                return 'data'
            if n == 'TrailersReceived':
                return 'trailers'
            if n == 'StreamEnded':
                return 'ended'
            return None
        if stt == 'trailers':
            if n == 'StreamEnded':
                return 'ended'
            return None
        return None      # ended: nothing may follow


def run_case(idx, rng, tier, rep):
    e_client = rng.random() < 0.5
    cfg = dict(validate_inbound_headers=rng.random() < 0.8, normalize_inbound_headers=rng.random() < 0.8,
               header_encoding=rng.choice([None, None, 'utf-8']))
    t = core.Tap(core.make_conn(e_client, **cfg), keep_log=True)
    t.call('initiate_connection')
    mon = EventGrammar(e_client, rep)
    pg = gen.PeerGen(rng, e_client, hostile=rng.choice([0.0, 0.03, 0.1]), hdr_hostile=rng.choice([0.0, 0.0, 0.05]))
    stream = bytearray(pg.preface())
    nsid = 1
    delivered = []
    local = []
    dead = 0
    nstream_events = 0
    reset_local, done_pushed, skipped = set(), [], []
    garbage_ids = []
    for i in range(rng.choice([10, 30, 60])):
        if dead > 1:
            break
        # local calls that change what the peer may legally send
        r = rng.random()
        if e_client and r < 0.03:
            # a mistaken call: a header value that is not a string.  Whatever it raises, nothing was sent and the id is unused;
            # the peer later sends frames on that very id
            res = t.call('send_headers', nsid, gen.valid_headers(rng, 'request') + [(b'content-length', 0)])
            local.append(('garbage-req', nsid))
            if res.exc is not None:
                garbage_ids.append(nsid)
                rep.count('garbage_openings')
            elif res.ok:
                pg.note_e_stream(nsid)
            nsid += 2
        elif e_client and r < 0.3:
            res = t.call('send_headers', nsid, gen.valid_headers(rng, 'request'), end_stream=rng.random() < 0.5)
            local.append(('req', nsid))
            if res.ok:
                pg.note_e_stream(nsid)
            nsid += 2
        elif not e_client and r < 0.4 and pg.open:
            sid = rng.choice(list(pg.open))
            kind = rng.choice(['informational', 'response', 'response-es', 'push', 'data'])
            if kind == 'informational':
                t.call('send_headers', sid, [(b':status', b'103')])
            elif kind == 'response':
                t.call('send_headers', sid, RESP)
            elif kind == 'response-es':
                t.call('send_headers', sid, RESP, end_stream=True)
            elif kind == 'push':
                t.call('push_stream', sid, rng.choice([2, 4, 6, 8]), REQ)
            else:
                t.call('send_data', sid, b'x', end_stream=rng.random() < 0.3)
            local.append((kind, sid))
        elif r < 0.35 and pg.open:
            sid = rng.choice(list(pg.open))
            rr = t.call('reset_stream', sid)
            local.append(('reset', sid))
            if rr.exc is None and e_client:
                reset_local.add(sid)
        msg = illegal_production(rng, pg, e_client) if rng.random() < 0.12 else pg.step()
        if e_client and garbage_ids and rng.random() < 0.3:
            gid = rng.choice(garbage_ids)
            msg = rng.choice([wire.build_headers(gid, hb(RESP)), wire.build_headers(gid, hb(REQ), end_stream=True),
                              wire.build_data(gid, b'late')])
            rep.count('frames_on_ids_of_failed_openings')
        if e_client and pg.e_streams:
            r2 = rng.random()
            live_par = [x for x in pg.e_streams if x not in reset_local]
            if r2 < 0.08 and live_par:
                # a complete push (promise + response with END_STREAM), sometimes leaving an id unused below it
                pid = pg.next_sid + (2 if rng.random() < 0.5 else 0)
                if pid > pg.next_sid:
                    skipped.append(pg.next_sid)
                pg.next_sid = pid + 2
                msg = wire.build_push_promise(rng.choice(live_par), pid, hb(REQ)) + wire.build_headers(pid, hb(RESP), end_stream=True)
                done_pushed.append(pid)
                rep.count('completed_pushes_generated')
            elif r2 < 0.16 and done_pushed and live_par:
                # stream ids used a second time: a promise on a locally reset parent naming a lower, unused id, then an id that
                # was promised and completed before is promised again and gets a second response
                parts = b''
                if reset_local and skipped:
                    parts += wire.build_push_promise(rng.choice(sorted(reset_local)), skipped.pop(0), hb(REQ))
                old = rng.choice(done_pushed)
                parts += wire.build_push_promise(rng.choice(live_par), old, hb(REQ)) + wire.build_headers(old, hb(RESP), end_stream=True)
                msg = parts
                rep.count('stream_id_reuse_productions')
        if rng.random() < 0.02:
            msg = gen.mutate_bytes(rng, msg)
        stream += msg
        if rng.random() < 0.6:
            data = bytes(stream)
            del stream[:]
            for ch in gen.chunkings(rng, data):
                delivered.append(ch)
                res = t.call('receive_data', ch)
                if res.exc is not None:
                    dead += 1
                    continue         # events returned before an exception are lost to the caller: not part of the trace
                before = rep.counters.get('stream_events_checked', 0)
                for key, what in mon.feed(res.events):
                    rep.violation(key, what, {'role': 'client' if e_client else 'server', 'cfg': cfg, 'local_calls': local[-8:],
                                              'events': [core.ev_brief(e) for e in res.events][:12], 'log_tail': t.tail_log(4)})
                nstream_events += rep.counters.get('stream_events_checked', 0) - before
    if nstream_events >= 5:
        rep.nontrivial((e_client, b''.join(delivered), tuple(local)))
    if idx % 991 == 0:
        rep.sample({'role': 'client' if e_client else 'server', 'cfg': cfg, 'n_chunks': len(delivered), 'local_calls': local[:10],
                    'stream_states': dict(list(mon.state.items())[:10])})


def illegal_production(rng, pg, e_client):
    """Frame sequences that are structurally fine but break the per-stream message grammar."""
    sids = list(pg.open) or [1]
    sid = rng.choice(sids)
    m = rng.choice([0, 1, 2, 3, 4, 4, 4, 5, 5, 5, 6, 7, 8, 9])
    resp = hb(RESP if e_client else REQ)
    if m == 0:       # DATA before HEADERS
        if e_client and pg.e_streams:
            s = rng.choice(pg.e_streams)
            return wire.build_data(s, b'early') + wire.build_headers(s, resp)
        s = pg.next_sid + 40
        return wire.build_data(s, b'early')
    if m == 1:       # HEADERS on a never-promised even id / odd id the client never opened
        return wire.build_headers(rng.choice([pg.next_sid + 20, 1001, 2002]), hb(rng.choice([RESP, REQ])), end_stream=rng.random() < 0.5)
    if m == 2:       # second final response / second request headers without END_STREAM
        return wire.build_headers(sid, resp) + wire.build_headers(sid, resp)
    if m == 3:       # trailers without END_STREAM
        return wire.build_headers(sid, resp) + wire.build_headers(sid, hb([(b'x-t', b'1')]), end_stream=False)
    if m == 4:       # frames after END_STREAM
        if pg.open.get(sid) == 'ended' or rng.random() < 0.5:
            # the stream was ended earlier (local calls may have happened since): only the late frames now
            pg.open[sid] = 'ended'
            return rng.choice([wire.build_data(sid, b'late'), wire.build_headers(sid, hb([(b'x-t', b'1')]), end_stream=True),
                               wire.build_data(sid, b'', end_stream=True)])
        pg.open[sid] = 'ended'
        return wire.build_headers(sid, resp, end_stream=True) + rng.choice([
            wire.build_data(sid, b'late'), wire.build_headers(sid, hb([(b'x-t', b'1')]), end_stream=True),
            wire.build_data(sid, b'', end_stream=True)])
    if m == 5:       # END_STREAM, then WINDOW_UPDATE on the stream, then more frames
        return (wire.build_headers(sid, resp, end_stream=True) + wire.build_window_update(sid, 100) +
                rng.choice([wire.build_data(sid, b'late', end_stream=True), wire.build_headers(sid, hb([(b'x-t', b'2')]), end_stream=True)]))
    if m == 6:       # frames after RST_STREAM
        return wire.build_rst(sid, 8) + rng.choice([wire.build_data(sid, b'x'), wire.build_headers(sid, resp), wire.build_rst(sid, 0)])
    if m == 7:       # informational after final / informational with END_STREAM
        return wire.build_headers(sid, hb([(b':status', b'200')])) + wire.build_headers(sid, hb([(b':status', b'100')]),
                                                                                        end_stream=rng.random() < 0.5)
    if m == 8:       # trailers then data
        return (wire.build_headers(sid, resp) + wire.build_data(sid, b'b') + wire.build_headers(sid, hb([(b'x-t', b'1')]), end_stream=True) +
                wire.build_data(sid, b'after-trailers'))
    # push promise then headers/data on the promised stream in odd orders
    if e_client and pg.e_streams:
        par = rng.choice(pg.e_streams)
        pid = pg.next_sid
        pg.next_sid += 2
        return (wire.build_push_promise(par, pid, hb(REQ)) + rng.choice([wire.build_data(pid, b'early'), wire.build_headers(pid, hb(RESP)),
                                                                         wire.build_push_promise(pid, pid + 2, hb(REQ))]) +
                wire.build_headers(pid, hb(RESP), end_stream=True))
    return wire.build_data(sid, b'x', end_stream=True) + wire.build_data(sid, b'y', end_stream=True)
