"""C19 - a closed connection stays quiet.

Closure point = first of {successful close_connection, delivery of a GOAWAY
frame, receive_data raising ProtocolError}.  Afterwards: no frame other than
GOAWAY on E's wire; every frame-emitting / stream-opening call raises
ProtocolError (family); acknowledge_received_data may return but emits nothing;
bytes pending when a GOAWAY is received are never returned by data_to_send.
"""
import h2.exceptions

from .. import core, gen, scen, wire
from ..scen import REQ, RESP, hb

LEVEL = 'exploration'
RULE = ('each case = a valid prefix reaching varied stream states (open / half-closed / reset / reserved, unacknowledged '
        'received DATA above half the window, settings pending, undrained output), closure by one of three routes, then '
        '5-40 random public calls and received frames; non-trivial = closure reached and at least 3 post-closure actions '
        'judged; distinct = hash of (route, role, post-closure action sequence)')
MINIMA = {'closed_by_a_frame_the_idle_connection_refuses': 300, 'goaway_sharing_its_chunk_with_answered_frames': 300, 'post_calls_judged': 3000, 'post_recv_judged': 1000, 'route_close_connection': 100, 'route_recv_goaway': 100,
          'route_conn_error': 100, 'ack_after_close_judged': 200, 'pending_discard_judged': 100,
          'goaway_on_closed_connection_with_pending_output': 300}


def n_cases(tier):
    return 12000 if tier == 'quick' else 600000


EMITTING = ['send_headers_new', 'send_headers_resp', 'send_data', 'end_stream', 'inc_stream', 'inc_conn', 'push_stream',
            'ping', 'reset_stream', 'update_settings', 'altsvc', 'prioritize', 'ack', 'close_connection', 'recv']


def run_case(idx, rng, tier, rep):
    e_client = rng.random() < 0.5
    e_settings = {4: rng.choice([65535, 2 ** 17])} if rng.random() < 0.3 else None
    h = scen.Hostile(e_client, e_settings=e_settings, keep_log=True)
    t = h.t
    live = []          # streams E may still act on
    data_sids = []     # streams with unacknowledged received data: (sid, nbytes)
    conn_tot = 0
    for _ in range(rng.choice([0, 1, 2, 3])):
        st = rng.choice(['open', 'open_resp', 'hc_remote', 'hc_local', 'closed_rst_sent', 'closed_es'])
        sid = h.reach(st)
        live.append(sid)
        if st in ('open_resp',) or (st in ('open', 'hc_local') and not e_client):
            if st == 'hc_local' and e_client:
                continue
            n = rng.choice([1, 16384, 16384, 16000])
            tot = 0
            for _ in range(rng.choice([1, 2, 3])):
                if conn_tot + n > 60000:
                    break
                if h.peer_data(sid, b'd' * n).ok:
                    tot += n
                    conn_tot += n
            if tot:
                data_sids.append((sid, tot))
    if not e_client and live and rng.random() < 0.3:
        # a reserved (pushed) stream
        par = [s for s in live if s in h.c.streams and h.c.streams[s].open]
        if par:
            r = t.call('push_stream', par[0], h.e_next, REQ)
            if r.ok:
                live.append(h.e_next)
                h.e_next += 2
    if rng.random() < 0.3:
        t.call('update_settings', {3: 50})            # settings pending (un-ACKed)
    # pending (undrained) output
    pending = rng.random() < 0.5
    if pending:
        t.call('ping', b'pending!', _drain=False)
        if live and rng.random() < 0.5:
            t.call('increment_flow_control_window', 10, _drain=False)
    route = rng.choice(['close_connection', 'recv_goaway', 'conn_error'])
    rep.count('route_' + route)
    # closed by another route with output still undrained, and only then the peer's GOAWAY arrives
    late_goaway = pending and route != 'recv_goaway' and rng.random() < 0.5
    if route == 'close_connection':
        r = t.call('close_connection', rng.choice([0, 1, 2]), rng.choice([None, b'bye']), _drain=not late_goaway)
        if not r.ok:
            rep.count('closure_failed')
            return
        bad = [f for f in r.frames if f.type != wire.GOAWAY and not pending]
        if bad:
            rep.violation('C19:close_connection-emitted-' + bad[0].name, 'close_connection emitted %s' % bad[0].name, wit(h, route))
    elif route == 'recv_goaway':
        # the GOAWAY names any last-stream-id (0, a used one, the 2^31-1 of a graceful-shutdown notice) and may share its chunk
        # with frames the library answers on its own: those answers are bytes not yet handed over, and go as well
        ga = wire.build_goaway(rng.choice([0, 1, 7, 2 ** 31 - 1, 2 ** 31 - 1]), rng.choice([0, 2, 11]), rng.choice([b'', b'dbg']))
        ahead = b''
        if rng.random() < 0.5:
            for _ in range(rng.choice([1, 2, 3])):
                k = rng.randrange(5)
                if k == 0:
                    ahead += wire.build_ping(b'answerme')
                elif k == 1:
                    ahead += wire.build_settings([(3, rng.choice([10, 100]))])
                elif k == 2 and live:
                    ahead += wire.build_window_update(rng.choice(live), 2 ** 31 - 1)       # overflow: the library resets the stream
                elif k == 3:
                    ahead += wire.build_data(h.peer_next + 40 if e_client else h.peer_next - 2 if h.peer_next > 2 else 99, b'zz')
                else:
                    ahead += wire.build_priority(rng.choice(live) if live else 1, 0, False, 7)
            rep.count('goaway_sharing_its_chunk_with_answered_frames')
        r = t.call('receive_data', ahead + ga, _drain=not pending)
        if not r.ok:
            rep.count('closure_failed')
            return
        if ahead and not pending and r.frames:
            rep.violation('C19:answers-to-frames-ahead-of-goaway-survive',
                          'frames answered in the same receive_data call as the GOAWAY were not discarded: %s' %
                          [f.brief() for f in r.frames][:5], wit(h, route))
        if pending:
            out = t.call('data_to_send')
            rep.count('pending_discard_judged')
            if out.value:
                fr, _ = wire.parse_frames(out.value)
                rep.violation('C19:pending-output-survives-goaway',
                              'bytes pending when GOAWAY was received were returned later: %s' % [f.name for f in fr][:5], wit(h, route))
    else:
        bad_frame = rng.choice([wire.build_data(0, b'x'), wire.build_window_update(0, 0), wire.raw_frame(wire.PING, 0, 0, b'123'),
                                wire.build_settings([(2, 5)]), wire.build_headers(0, hb(REQ))])
        if not live and rng.random() < 0.7:
            # no stream yet: frames the connection itself (still idle) has no use for
            bad_frame = rng.choice([wire.build_data(1, b'x'), wire.build_rst(1, 0), wire.build_rst(2, 8), wire.build_data(3, b'', end_stream=True),
                                    wire.build_push_promise(1, 2, hb(REQ)), wire.build_window_update(1, 0)])
            rep.count('closed_by_a_frame_the_idle_connection_refuses')
        r = t.call('receive_data', bad_frame, _drain=not late_goaway)
        if r.ok or not isinstance(r.exc, h2.exceptions.ProtocolError):
            rep.count('closure_failed')
            return
    if late_goaway:
        r = t.call('receive_data', wire.build_goaway(rng.choice([0, 1]), rng.choice([0, 2])), _drain=False)
        rep.count('goaway_on_closed_connection_with_pending_output')
        if r.exc is not None and not isinstance(r.exc, h2.exceptions.ProtocolError):
            rep.violation('C19:receive_data-raises-' + type(r.exc).__name__, 'receive_data raised %r' % r.exc, wit(h, route))
        out = t.call('data_to_send')
        if r.exc is None and out.value:
            fr, _ = wire.parse_frames(out.value)
            rep.violation('C19:pending-output-survives-goaway:connection-already-closed',
                          'bytes pending when GOAWAY was received on an already closed connection were returned later: %s' %
                          [f.name for f in fr][:5], wit(h, route))
    # ---- post-closure phase
    seq = []
    judged = 0
    for step in range(rng.randrange(5, 41)):
        act = rng.choice(EMITTING)
        sid = rng.choice(live) if live else rng.choice([1, 2])
        res = None
        if act == 'send_headers_new':
            res = t.call('send_headers', h.e_next if e_client else sid, REQ if e_client else RESP,
                         end_stream=rng.random() < 0.5)
        elif act == 'send_headers_resp':
            res = t.call('send_headers', sid, RESP if not e_client else REQ)
        elif act == 'send_data':
            res = t.call('send_data', sid, b'x' * rng.choice([0, 1, 100]), end_stream=rng.random() < 0.3)
        elif act == 'end_stream':
            res = t.call('end_stream', sid)
        elif act == 'inc_stream':
            if sid not in h.c.streams:
                continue        # unknown-stream behaviour of this call is C29's
            res = t.call('increment_flow_control_window', rng.choice([1, 1000]), sid)
        elif act == 'inc_conn':
            res = t.call('increment_flow_control_window', rng.choice([1, 1000]))
        elif act == 'push_stream':
            if e_client:
                continue
            res = t.call('push_stream', sid, h.e_next + 2 * step, REQ)
        elif act == 'ping':
            res = t.call('ping', b'12345678')
        elif act == 'reset_stream':
            res = t.call('reset_stream', sid, rng.choice([0, 8]))
        elif act == 'update_settings':
            res = t.call('update_settings', {rng.choice([1, 3, 4, 6]): rng.choice([0, 100, 4096])})
        elif act == 'altsvc':
            if e_client:
                continue
            res = t.call('advertise_alternative_service', b'h2=":443"', origin=b'example.com')
        elif act == 'prioritize':
            if not e_client:
                continue
            res = t.call('prioritize', sid, weight=rng.choice([1, 16, 256]))
        elif act == 'ack':
            if data_sids and rng.random() < 0.8:
                asid, n = rng.choice(data_sids)
            else:
                asid, n = sid, rng.choice([0, 1, 40000])
            if asid <= 0:
                continue
            res = t.call('acknowledge_received_data', n, asid)
            rep.count('ack_after_close_judged')
            seq.append('ack')
            judged += 1
            if res.exc is not None and not isinstance(res.exc, h2.exceptions.ProtocolError):
                rep.violation('C19:ack-raises-' + type(res.exc).__name__, 'acknowledge_received_data raised %r' % res.exc, wit(h, route))
            nong = [f for f in res.frames if f.type != wire.GOAWAY]
            if nong:
                rep.violation('C19:acknowledge_received_data-emits-%s-after-close' % nong[0].name,
                              'acknowledge_received_data(%d, %d) on a closed connection emitted %s' %
                              (n, asid, [f.brief() for f in nong]), wit(h, route))
            continue
        elif act == 'close_connection':
            res = t.call('close_connection', rng.choice([0, 1]))
            seq.append('close')
            judged += 1
            nong = [f for f in res.frames if f.type != wire.GOAWAY]
            if nong:
                rep.violation('C19:close_connection-emits-' + nong[0].name, 'close_connection emitted %s after closure' % nong[0].name,
                              wit(h, route))
            if res.exc is not None and not isinstance(res.exc, h2.exceptions.ProtocolError):
                rep.violation('C19:close_connection-raises-' + type(res.exc).__name__, 'close_connection raised %r' % res.exc, wit(h, route))
            continue
        elif act == 'recv':
            pgf = rng.choice([
                wire.build_ping(b'abcdefgh'), wire.build_settings([(3, 7)]), wire.build_settings(ack=True),
                wire.build_data(sid, b'zz'), wire.build_headers(sid, hb(RESP if e_client else REQ)),
                wire.build_window_update(0, 5), wire.build_window_update(sid, 5), wire.build_rst(sid, 0),
                wire.build_priority(sid, 0, False, 3), wire.build_goaway(0, 0), wire.raw_frame(0x42, 0, 0, b'u'),
                wire.build_altsvc(0, b'o', b'f'), wire.build_push_promise(sid, 100, hb(REQ)),
                wire.build_continuation(sid, b''), wire.build_data(sid, b'\0' * 100, pad=3),
                wire.raw_frame(wire.PING, 0, 0, b'bad')])
            res = t.call('receive_data', pgf)
            rep.count('post_recv_judged')
            seq.append('recv')
            judged += 1
            nong = [f for f in res.frames if f.type != wire.GOAWAY]
            if nong:
                rep.violation('C19:receive_data-emits-%s-after-close' % nong[0].name,
                              'receive_data on a closed connection emitted %s' % [f.brief() for f in nong][:3], wit(h, route))
            if res.exc is not None and not isinstance(res.exc, h2.exceptions.ProtocolError):
                rep.violation('C19:receive_data-raises-' + type(res.exc).__name__, 'receive_data raised %r' % res.exc, wit(h, route))
            continue
        if res is None:
            continue
        rep.count('post_calls_judged')
        seq.append(act)
        judged += 1
        if res.frames:
            rep.violation('C19:%s-emits-%s-after-close' % (act, res.frames[0].name),
                          '%s on a closed connection emitted %s' % (act, [f.brief() for f in res.frames][:3]), wit(h, route))
        if res.exc is None:
            rep.violation('C19:%s-succeeds-after-close' % act, '%s returned normally on a closed connection' % act, wit(h, route))
        elif not isinstance(res.exc, h2.exceptions.ProtocolError):
            rep.violation('C19:%s-raises-%s' % (act, type(res.exc).__name__),
                          '%s on a closed connection raised %s instead of ProtocolError' % (act, core.exc_key(res.exc)), wit(h, route))
    if judged >= 3:
        rep.nontrivial((route, e_client, tuple(seq), pending))
    if idx % 991 == 0:
        rep.sample({'role': 'client' if e_client else 'server', 'route': route, 'pending_output': pending,
                    'post_closure_actions': seq})


def wit(h, route):
    return {'role': 'client' if h.e_client else 'server', 'route': route, 'log_tail': h.t.tail_log(14)}
