"""C02 - emitted bytes are well-formed HTTP/2 that encode exactly the calls.

(1) whole stream: everything E ever emitted parses strictly (independent codec):
preface (clients), first frame a non-ACK SETTINGS equal to the local settings,
no defects, no payload above the peer MAX_FRAME_SIZE as delivered so far, header
blocks contiguous with END_HEADERS exactly on the last frame.
(2) per call: an emission specification written from the docstrings, applied to
every call that returned normally.
"""
import copy

import h2.exceptions

from .. import core, gen, scen, wire
from ..scen import REQ, RESP, hb

LEVEL = 'exploration'
RULE = ('each case = 20-60 public calls on one endpoint (both roles) against a scripted peer that announces MAX_FRAME_SIZE '
        'from {2^14, 2^14+1, 2^14+5, 2^15, 65535, 2^24-1} and HEADER_TABLE_SIZE changes at random points; header blocks '
        'sized within +-12 bytes of k*MFS (k=1..3) combined with every priority-argument combination; pad lengths 0..255; '
        'weights 1..256; DATA sizes {0,1,MFS-256..MFS+1}; non-trivial = at least 5 successful calls judged against the '
        'emission specification; distinct = hash of (role, call list)')
MINIMA = {'calls_spec_checked': 15000, 'header_blocks_decoded': 4000, 'multi_frame_header_blocks': 300,
          'priority_headers_checked': 500, 'padded_data_checked': 500, 'frames_size_checked': 25000,
          'near_limit_blocks': 300}
MFS_SET = [2 ** 14, 2 ** 14 + 1, 2 ** 14 + 5, 2 ** 15, 65535, 2 ** 24 - 1]


def n_cases(tier):
    return 2400 if tier == 'quick' else 36000


def sized_headers(rng, t, base, target):
    """A header list whose HPACK encoding by E's encoder (cloned, generator aid only) is `target` bytes
    (best effort).  Values consist of 'X' (8-bit Huffman code) so size tracks length."""
    enc = getattr(t.c, 'encoder', None)
    n = max(1, target - 40)
    hs = None
    for _ in range(3):
        hs = base + [(b'x-fill', b'X' * n)]
        if enc is None:
            return hs
        try:
            size = len(copy.deepcopy(enc).encode(hs))
        except Exception:       # noqa
            return hs
        if size == target:
            return hs
        n = max(1, n + (target - size))
    return hs


def run_case(idx, rng, tier, rep):
    e_client = rng.random() < 0.55
    h = scen.Hostile(e_client, keep_log=True, handshake=False)
    t = h.t
    h.mdec.max_allowed_table_size = 4096        # follows what the scripted peer announces: no block may signal a larger table
    st = {'mfs': 16384, 'alive': True, 'peer_hi': 0}
    calls = []
    owed = {}          # window scope -> octets acknowledged by E and not yet credited by an automatic WINDOW_UPDATE
    tag = [0]

    def fail(key, what):
        rep.violation(key, what, {'role': 'client' if e_client else 'server', 'calls_tail': calls[-8:], 'log_tail': t.tail_log(5)})
        st['alive'] = False

    def check_frames(res, who):
        """size limit + no defects for every frame emitted in this call"""
        for f in res.frames:
            rep.count('frames_size_checked')
            if f.defects:
                fail('C02:malformed-frame:%s:%s' % (f.name, f.defects[0]), '%s emitted %s with defects %s' % (who, f.name, f.defects))
                return False
            if f.length > st['mfs']:
                fail('C02:frame-exceeds-peer-max-frame-size:%s' % f.name,
                     '%s emitted %s with payload %d > peer MAX_FRAME_SIZE %d' % (who, f.name, f.length, st['mfs']))
                return False
            if f.type == wire.GOAWAY:
                st['alive'] = False
        return True

    def only_auto(res):
        for f in res.frames:
            ok = (f.type == wire.SETTINGS and f.ack) or (f.type == wire.PING and f.ack) or \
                f.type in (wire.RST_STREAM, wire.WINDOW_UPDATE, wire.GOAWAY)
            if not ok:
                fail('C02:receive_data-emitted-%s' % f.name, 'receive_data emitted a non-automatic frame %s' % f.brief())
                return

    def recv(data):
        res = h.send(data)
        calls.append(('recv', len(data)))
        if check_frames(res, 'receive_data'):
            only_auto(res)
        if res.exc is not None:
            st['alive'] = False
        return res

    def header_block_check(res, first_type, sid, want_headers, end_stream=None, priority=None, promised=None):
        fr = res.frames
        if not fr or fr[0].type != first_type or fr[0].stream_id != sid:
            fail('C02:wrong-first-frame:%s' % wire.TYPE_NAMES[first_type], 'expected %s on stream %d first, got %s' %
                 (wire.TYPE_NAMES[first_type], sid, [f.brief() for f in fr][:3]))
            return
        for i, f in enumerate(fr[1:]):
            if f.type != wire.CONTINUATION or f.stream_id != sid:
                fail('C02:unexpected-frame-in-header-block', 'frame %d of the call is %s' % (i + 1, f.brief()))
                return
        for i, f in enumerate(fr):
            if f.end_headers != (i == len(fr) - 1):
                fail('C02:end-headers-misplaced', 'END_HEADERS flag wrong on frame %d of %d' % (i, len(fr)))
                return
        f0 = fr[0]
        if f0.pad_length is not None:
            fail('C02:unexpected-padding', 'header frame is PADDED')
            return
        if first_type == wire.HEADERS:
            if f0.end_stream != bool(end_stream):
                fail('C02:end-stream-flag-wrong:HEADERS', 'END_STREAM=%s, asked %s' % (f0.end_stream, end_stream))
                return
            if priority is None:
                if f0.weight is not None:
                    fail('C02:unrequested-priority-fields', 'HEADERS carries priority fields nobody asked for')
                    return
            else:
                rep.count('priority_headers_checked')
                w, dep, ex = priority
                want = ((w - 1) if w is not None else 15, dep if dep is not None else 0, bool(ex) if ex is not None else False)
                got = (f0.weight, f0.depends_on, f0.exclusive)
                if got != want:
                    fail('C02:priority-fields-wrong:HEADERS', 'priority (weight-1, depends_on, exclusive) = %s, requested %s' % (got, want))
                    return
        else:
            if f0.promised_id != promised:
                fail('C02:promised-id-wrong', 'PUSH_PROMISE promised %s, requested %s' % (f0.promised_id, promised))
                return
        if len(fr) > 1:
            rep.count('multi_frame_header_blocks')
        dec = h.decode_blocks(fr)
        if len(dec) != 1 or isinstance(dec[0][1], Exception):
            fail('C02:header-block-undecodable', 'independent decoder failed: %r' % (dec[0][1] if dec else None))
            return
        rep.count('header_blocks_decoded')
        got = dec[0][1]
        want = [(bytes(n), bytes(v)) for n, v in want_headers]
        if got != want:
            k = next((i for i, (a, b) in enumerate(zip(got, want)) if a != b), min(len(got), len(want)))
            fail('C02:header-block-content-differs', 'decoded block differs from the call at field %d: got %r want %r' %
                 (k, got[k:k + 1], want[k:k + 1]))

    def one_frame(res, ftype, who):
        if len(res.frames) != 1 or res.frames[0].type != ftype:
            fail('C02:%s-emission-wrong' % who, '%s emitted %s, expected exactly one %s' %
                 (who, [f.brief() for f in res.frames][:3], wire.TYPE_NAMES[ftype]))
            return None
        return res.frames[0]

    # ---- connection start
    r = t.call('initiate_connection')
    calls.append(('initiate_connection',))
    if r.exc is not None:
        fail('C02:initiate-raises', 'initiate_connection raised %r' % r.exc)
        return
    if t.parser.preface_bad or (e_client and not t.parser.preface_ok):
        fail('C02:client-preface-missing', 'client output does not start with the connection preface')
        return
    f = one_frame(r, wire.SETTINGS, 'initiate_connection')
    if f is not None:
        want = sorted((int(k), int(v)) for k, v in t.c.local_settings.items())
        if f.ack or sorted(f.settings) != want or len(f.settings) != len(want):
            fail('C02:initial-settings-differ', 'initial SETTINGS %s, local_settings %s' % (f.settings, want))
            return
    recv((b'' if e_client else wire.PREFACE) + wire.build_settings([]))
    recv(wire.build_settings(ack=True))

    live = []           # streams E can send on: (sid, state) state in 'open','resp-sent'
    can_data = []
    inbound_data = {}

    def open_stream():
        tag[0] += 1
        if e_client:
            sid = h.e_next
            return sid
        sid, res = h.peer_request(headers=scen.REQ_POST)
        calls.append(('peer-request', sid))
        check_frames(res, 'receive_data')
        if res.ok:
            st['peer_hi'] = max(st['peer_hi'], sid)
            live.append(sid)
        return sid

    if not e_client:
        for _ in range(rng.choice([1, 2, 3])):
            open_stream()
    for step in range(rng.randrange(20, 61)):
        if not st['alive']:
            break
        op = rng.choice(['send_headers', 'send_headers', 'send_headers', 'send_data', 'send_data', 'end_stream', 'increment',
                         'push', 'ping', 'reset', 'settings', 'altsvc', 'prioritize', 'ack', 'peer_mfs', 'peer_mfs',
                         'peer_table', 'peer_open', 'close'])
        if op == 'close' and rng.random() < 0.85:
            continue
        if op == 'peer_mfs':
            v = rng.choice(MFS_SET)
            res = recv(wire.build_settings([(wire.S_MAX_FRAME_SIZE, v)]))
            if res.ok:
                st['mfs'] = v
        elif op == 'peer_table':
            v = rng.choice([0, 100, 1024, 4096, 8192, 65536])
            if recv(wire.build_settings([(wire.S_HEADER_TABLE_SIZE, v)])).ok:
                h.mdec.max_allowed_table_size = v
                rep.count('peer_table_size_changes')
                if rng.random() < 0.4:
                    # a second change right behind the first, before E has sent another block
                    v = rng.choice([0, 100, 1024, 4096, 8192])
                    if recv(wire.build_settings([(wire.S_HEADER_TABLE_SIZE, v)])).ok:
                        h.mdec.max_allowed_table_size = v
        elif op == 'peer_open':
            if not e_client and len(live) < 8:
                open_stream()
        elif op == 'send_headers':
            tag[0] += 1
            near = rng.random() < 0.3
            prio = None
            kw = {}
            if e_client and rng.random() < 0.5:
                prio = (rng.choice([None, 1, 2, 16, 255, 256, rng.randrange(1, 257)]), rng.choice([None, 0, 1, 3, 2 ** 31 - 1]),
                        rng.choice([None, True, False]))
                if prio == (None, None, None):
                    prio = None
                else:
                    kw = {'priority_weight': prio[0], 'priority_depends_on': prio[1], 'priority_exclusive': prio[2]}
            if e_client:
                sid = h.e_next
                if prio is not None and prio[1] == sid:
                    continue
                base = gen.valid_headers(rng, 'request', tag=tag[0])
                new = True
            else:
                if not live:
                    continue
                sid = rng.choice(live)
                base = gen.valid_headers(rng, 'response', tag=tag[0])
                new = False
            if near and st['mfs'] <= 2 ** 15:
                k = rng.choice([1, 1, 1, 2, 3]) if st['mfs'] < 2 ** 15 else 1
                target = k * st['mfs'] + rng.randrange(-12, 13)
                hs = sized_headers(rng, t, base, target)
                rep.count('near_limit_blocks')
            else:
                hs = base
            es = rng.random() < 0.3
            res = t.call('send_headers', sid, hs, end_stream=es, **kw)
            calls.append(('send_headers', sid, len(hs), es, prio, 'near' if near else ''))
            if not check_frames(res, 'send_headers'):
                continue
            if res.exc is not None:
                if not isinstance(res.exc, h2.exceptions.H2Error):
                    fail('C02:valid-send_headers-raised:' + core.exc_key(res.exc), 'send_headers raised %r' % res.exc)
                elif res.frames:
                    fail('C02:raising-call-emitted', 'send_headers raised but emitted %s' % [f.name for f in res.frames])
                continue
            rep.count('calls_spec_checked')
            header_block_check(res, wire.HEADERS, sid, hs, end_stream=es, priority=prio)
            if e_client:
                h.e_next += 2
                if not es:
                    can_data.append(sid)
            else:
                if sid in live:
                    live.remove(sid)
                if not es:
                    can_data.append(sid)
        elif op == 'send_data':
            if not can_data:
                continue
            sid = rng.choice(can_data)
            pad = rng.choice([None, None, rng.randrange(0, 256), 0, 255])
            lim = min(st['mfs'], 65535)
            size = rng.choice([0, 1, rng.randrange(0, 300), max(0, lim - 256 + rng.randrange(0, 258))])
            w = t.c.local_flow_control_window(sid) if sid in t.c.streams else 0
            tot = size + (0 if pad is None else pad + 1)
            if tot > w or tot > st['mfs']:
                size = max(0, min(w, st['mfs']) - (0 if pad is None else pad + 1))
                tot = size + (0 if pad is None else pad + 1)
                if tot > w or tot > st['mfs']:
                    continue
            data = bytes([tag[0] & 0xff]) * size
            es = rng.random() < 0.15
            res = t.call('send_data', sid, data, end_stream=es, pad_length=pad)
            calls.append(('send_data', sid, size, pad, es))
            if not check_frames(res, 'send_data'):
                continue
            if res.exc is not None:
                fail('C02:valid-send_data-raised:' + core.exc_key(res.exc), 'send_data(%d bytes, pad %s) raised %r' % (size, pad, res.exc))
                continue
            rep.count('calls_spec_checked')
            f = one_frame(res, wire.DATA, 'send_data')
            if f is None:
                continue
            if pad is not None:
                rep.count('padded_data_checked')
            if (f.stream_id, f.data, f.pad_length, f.end_stream) != (sid, data, pad, es):
                fail('C02:data-frame-differs-from-call', 'DATA sid %d len %s pad %s es %s; call sid %d len %d pad %s es %s' %
                     (f.stream_id, len(f.data or b''), f.pad_length, f.end_stream, sid, size, pad, es))
                continue
            if es:
                can_data.remove(sid)
            # keep the peer's windows open so that sizes stay free
            recv(wire.build_window_update(0, tot) if tot else b'')
        elif op == 'end_stream':
            if not can_data:
                continue
            sid = rng.choice(can_data)
            res = t.call('end_stream', sid)
            calls.append(('end_stream', sid))
            if not check_frames(res, 'end_stream') or res.exc is not None:
                continue
            rep.count('calls_spec_checked')
            f = one_frame(res, wire.DATA, 'end_stream')
            if f is not None and (f.stream_id, f.data, f.end_stream, f.pad_length) != (sid, b'', True, None):
                fail('C02:end_stream-frame-wrong', 'end_stream emitted %s' % f.brief())
            can_data.remove(sid)
        elif op == 'increment':
            inc = rng.choice([1, 2, 1000, 65535, 2 ** 20])
            sid = rng.choice(can_data) if can_data and rng.random() < 0.6 else None
            res = t.call('increment_flow_control_window', inc, sid) if sid else t.call('increment_flow_control_window', inc)
            calls.append(('increment', inc, sid))
            if not check_frames(res, 'increment') or res.exc is not None:
                continue
            rep.count('calls_spec_checked')
            f = one_frame(res, wire.WINDOW_UPDATE, 'increment_flow_control_window')
            if f is not None and (f.stream_id, f.increment) != (sid or 0, inc):
                fail('C02:window-update-frame-wrong', 'WINDOW_UPDATE sid %d inc %s for call (%s, %d)' % (f.stream_id, f.increment, sid, inc))
        elif op == 'push':
            if e_client:
                continue
            parents = [s for s in can_data + live if s % 2 == 1]
            if not parents:
                continue
            par = rng.choice(parents)
            pid = h.e_next
            tag[0] += 1
            base = gen.valid_headers(rng, 'push', tag=tag[0])
            if rng.random() < 0.3 and st['mfs'] <= 2 ** 15:
                hs = sized_headers(rng, t, base, st['mfs'] + rng.randrange(-12, 13))
                rep.count('near_limit_blocks')
            else:
                hs = base
            res = t.call('push_stream', par, pid, hs)
            calls.append(('push_stream', par, pid, len(hs)))
            if not check_frames(res, 'push_stream'):
                continue
            if res.exc is not None:
                if res.frames:
                    fail('C02:raising-call-emitted', 'push_stream raised but emitted %s' % [f.name for f in res.frames])
                continue
            rep.count('calls_spec_checked')
            h.e_next += 2
            header_block_check(res, wire.PUSH_PROMISE, par, hs, promised=pid)
            live.append(pid)
        elif op == 'ping':
            p = bytes(rng.randrange(256) for _ in range(8))
            res = t.call('ping', p)
            calls.append(('ping',))
            if not check_frames(res, 'ping') or res.exc is not None:
                continue
            rep.count('calls_spec_checked')
            f = one_frame(res, wire.PING, 'ping')
            if f is not None and (f.ack, f.opaque, f.stream_id) != (False, p, 0):
                fail('C02:ping-frame-wrong', 'ping emitted %s' % f.brief())
        elif op == 'reset':
            cands = can_data + live
            if not cands:
                continue
            sid = rng.choice(cands)
            code = rng.choice([0, 1, 2, 8, 0xd, 0xff, 2 ** 32 - 1])
            res = t.call('reset_stream', sid, code)
            calls.append(('reset_stream', sid, code))
            if not check_frames(res, 'reset_stream') or res.exc is not None:
                continue
            rep.count('calls_spec_checked')
            f = one_frame(res, wire.RST_STREAM, 'reset_stream')
            if f is not None and (f.stream_id, f.error_code) != (sid, code):
                fail('C02:rst-frame-wrong', 'RST_STREAM sid %d code %s for call (%d, %d)' % (f.stream_id, f.error_code, sid, code))
            for l in (can_data, live):
                if sid in l:
                    l.remove(sid)
        elif op == 'settings':
            ids = [1, 3, 4, 5, 6, 8, 2] + [rng.choice([7, 9, 0x10, 0xff, 0x100, 0x102, 0x7fff, 0xffff])]
            d = {}
            for _ in range(rng.choice([1, 1, 2, 3])):
                k = rng.choice(ids)
                v = {1: [0, 4096, 65536], 2: [0, 1], 3: [0, 1, 100, 2 ** 32 - 1], 4: [0, 65535, 2 ** 31 - 1],
                     5: [16384, 2 ** 24 - 1], 6: [0, 65536, 2 ** 32 - 1], 8: [0, 1]}.get(k, [0, 1, 2 ** 32 - 1])
                if k == 2 and not e_client:
                    v = [0]
                d[k] = rng.choice(v)
            res = t.call('update_settings', dict(d))
            calls.append(('update_settings', sorted(d.items())))
            if not check_frames(res, 'update_settings') or res.exc is not None:
                continue
            rep.count('calls_spec_checked')
            f = one_frame(res, wire.SETTINGS, 'update_settings')
            if f is not None:
                if f.ack or f.settings != list(d.items()):
                    hi = any(k >= 0x100 for k in d)
                    fail('C02:settings-frame-differs-from-call%s' % (':identifier-above-0xff' if hi and
                         [(k & 0xff, v) for k, v in d.items()] == f.settings else ''),
                         'SETTINGS pairs %s, call %s' % (f.settings, list(d.items())))
            recv(wire.build_settings(ack=True))
        elif op == 'altsvc':
            if e_client:
                continue
            if rng.random() < 0.5 or not live:
                origin = rng.choice([b'example.com', b'https://a.test:443'])
                field = rng.choice([b'h2=":443"', b'clear', b'h2="alt.example:8443"; ma=60'])
                res = t.call('advertise_alternative_service', field, origin=origin)
                sid = 0
                want = (0, origin, field)
            else:
                sid = rng.choice(live)
                field = b'h2=":8000"'
                res = t.call('advertise_alternative_service', field, stream_id=sid)
                want = (sid, b'', field)
            calls.append(('altsvc', sid))
            if not check_frames(res, 'altsvc') or res.exc is not None:
                continue
            rep.count('calls_spec_checked')
            f = one_frame(res, wire.ALTSVC, 'advertise_alternative_service')
            if f is not None and (f.stream_id, f.origin, f.field) != want:
                fail('C02:altsvc-frame-wrong', 'ALTSVC %s, call %s' % ((f.stream_id, f.origin, f.field), want))
        elif op == 'prioritize':
            if not e_client:
                continue
            sid = rng.choice([1, 3, 5, 7, 101, 2 ** 31 - 1])
            w = rng.choice([None, 1, 2, 16, 256, rng.randrange(1, 257)])
            dep = rng.choice([None, 0, 1, 9, 2 ** 31 - 1])
            ex = rng.choice([None, True, False])
            if dep == sid:
                continue
            res = t.call('prioritize', sid, weight=w, depends_on=dep, exclusive=ex)
            calls.append(('prioritize', sid, w, dep, ex))
            if not check_frames(res, 'prioritize') or res.exc is not None:
                continue
            rep.count('calls_spec_checked')
            f = one_frame(res, wire.PRIORITY, 'prioritize')
            if f is not None:
                want = (sid, (w - 1) if w is not None else 15, dep if dep is not None else 0, bool(ex) if ex is not None else False)
                if (f.stream_id, f.weight, f.depends_on, f.exclusive) != want:
                    fail('C02:priority-fields-wrong:PRIORITY', 'PRIORITY (sid, weight-1, dep, excl) = %s, requested %s' %
                         ((f.stream_id, f.weight, f.depends_on, f.exclusive), want))
        elif op == 'ack':
            # peer sends data, then E acknowledges
            cands = [s for s in can_data + live if s in t.c.streams and s % 2 == 1]
            if not cands:
                continue
            sid = rng.choice(cands)
            if e_client and sid not in inbound_data:
                r0 = recv(wire.build_headers(sid, hb(RESP)))
                inbound_data[sid] = 0
                if not r0.ok:
                    continue
            n = rng.choice([1, 100, 8000, 16384, 16384])
            if t.c.remote_flow_control_window(sid) < n:
                continue
            r0 = recv(wire.build_data(sid, b'p' * n))
            if not r0.ok:
                continue
            # (several frames before one acknowledgement, now and then: enough to make a WINDOW_UPDATE fall due)
            while rng.random() < 0.5 and t.c.remote_flow_control_window(sid) >= 16384:
                if not recv(wire.build_data(sid, b'p' * 16384)).ok:
                    break
                n += 16384
            res = t.call('acknowledge_received_data', n, sid)
            calls.append(('ack', n, sid))
            if not check_frames(res, 'acknowledge_received_data') or res.exc is not None:
                continue
            rep.count('calls_spec_checked')
            wu = [f for f in res.frames if f.type == wire.WINDOW_UPDATE]
            # an acknowledgement hands back what was acknowledged, never more: per scope the increments it emits stay within
            # the octets acknowledged so far and not yet credited
            for scope in (0, sid):
                owed[scope] = owed.get(scope, 0) + n
            for f in wu:
                if f.increment > owed.get(f.stream_id, 0):
                    fail('C02:acknowledge-credits-more-than-acknowledged', 'acknowledge_received_data(%d, %d) emitted WINDOW_UPDATE(%d, +%d) '
                         'with only %d acknowledged octets outstanding for that window' % (n, sid, f.stream_id, f.increment, owed.get(f.stream_id, 0)))
                    break
                owed[f.stream_id] -= f.increment
                rep.count('automatic_window_updates_within_acknowledged')
            ids = [f.stream_id for f in res.frames]
            if len(wu) != len(res.frames) or len(ids) > 2 or ids not in ([], [0], [sid], [0, sid]):
                fail('C02:acknowledge-emission-wrong', 'acknowledge_received_data emitted %s' % [f.brief() for f in res.frames])
        elif op == 'close':
            code = rng.choice([0, 1, 2, 0xb])
            dbg = rng.choice([None, b'', b'debug data'])
            last = rng.choice([None, None, 0, 1, 7])
            res = t.call('close_connection', code, dbg, last)
            calls.append(('close_connection', code, last))
            if not check_frames(res, 'close_connection') or res.exc is not None:
                continue
            rep.count('calls_spec_checked')
            f = one_frame(res, wire.GOAWAY, 'close_connection')
            if f is not None:
                want = (last if last is not None else st['peer_hi'], code, dbg or b'')
                if (f.last_stream_id, f.error_code, f.debug) != want:
                    fail('C02:goaway-frame-wrong', 'GOAWAY (last, code, debug) = %s, expected %s' %
                         ((f.last_stream_id, f.error_code, f.debug), want))
            st['alive'] = False
    # whole-stream verdict
    if t.parser.defects:
        i, dname = t.parser.defects[0]
        rep.violation('C02:stream-defect:%s' % dname, 'emitted byte stream has defect %s at frame %d (%s)' %
                      (dname, i, t.frames[i].brief() if i < len(t.frames) else '?'),
                      {'role': 'client' if e_client else 'server', 'calls_tail': calls[-8:]})
    if t.parser.pending:
        rep.violation('C02:trailing-partial-frame', 'emitted bytes end with an incomplete frame (%d bytes)' % t.parser.pending,
                      {'role': 'client' if e_client else 'server', 'calls_tail': calls[-8:]})
    if len(calls) >= 5:
        rep.nontrivial((e_client, tuple(str(c) for c in calls)))
    if idx % 499 == 0:
        rep.sample({'role': 'client' if e_client else 'server', 'calls': [str(c) for c in calls[:25]]})
